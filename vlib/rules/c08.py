"""C08 — permission arguments denote the bits chmod would compute (tables + exhaustive truth tables)."""
import itertools
import json
import os
import re

from .. import facts as F
from .. import codegen, emit, rx, peg, args as A
from ..facts import src, psrc, find_all, norm_ty
from . import c02

POSIX = os.path.join(F.VERIF, "spec", "posix_mode.json")
CHMOD = os.path.join(F.VERIF, "spec", "chmod.json")


class Unknown(Exception):
    pass


def bv(e, env, consts):
    """Evaluate a bit-vector expression of the Rust AST over python ints. env: name -> int."""
    e = rx.peel(e)
    k = e["k"]
    if k == "path":
        if len(e["segs"]) == 1:
            if e["segs"][0] in env:
                return env[e["segs"][0]]
            raise Unknown(src(e))
        name = e["segs"][-1]
        if name in consts:
            return consts[name]
        raise Unknown(src(e))
    if k == "lit" and e["t"] == "int":
        return int(e["v"])
    if k == "binary":
        a, b = bv(e["lhs"], env, consts), bv(e["rhs"], env, consts)
        op = e["op"]
        if op == "&":
            return a & b
        if op == "|":
            return a | b
        if op == "^":
            return a ^ b
        if op == "-":
            return a & ~b & env["__mask"]  # bitflags Sub = difference
        raise Unknown("operator " + op)
    if k == "unary" and e["op"] == "!":
        return ~bv(e["e"], env, consts) & env["__mask"]
    if k == "mcall":
        m = e["m"]
        r = bv(e["recv"], env, consts)
        if m == "complement" and not e["args"]:
            return ~r & env["__mask"]
        if m in ("union", "intersection", "difference", "symmetric_difference") and len(e["args"]) == 1:
            x = bv(e["args"][0], env, consts)
            return {"union": r | x, "intersection": r & x, "difference": r & ~x & env["__mask"], "symmetric_difference": r ^ x}[m]
        if m in ("bits", "clone", "to_owned") and not e["args"]:
            return r
        raise Unknown("method ." + m)
    if k == "block":
        env = dict(env)
        val = None
        for st in e["stmts"]:
            if st["k"] == "let" and st["pat"]["k"] == "ident":
                env[st["pat"]["name"]] = bv(st["init"], env, consts)
            elif st["k"] == "expr":
                val = bv(st["e"], env, consts)
            else:
                raise Unknown(src(st))
        if val is None:
            raise Unknown("block without value")
        return val
    raise Unknown(src(e)[:60])


def pyeval(expr, m, t, l, mask):
    return eval(expr, {"__builtins__": {}}, {"m": m, "t": t, "l": l}) & mask



from ..valueflow import compose_maps
from .. import bounds as BN

def run(c, facts, tier):
    posix = json.load(open(POSIX))
    chmod = json.load(open(CHMOD))
    c.trusted = ["E1 extractor", "combinator IR", "spec/posix_mode.json, spec/chmod.json (POSIX)"]
    c.explanation = (
        "Constants and who/permission tables are constant-folded and compared with POSIX. The clause algebra uses only bitwise operators, so each operator is the same Boolean function on every bit position: "
        "the composition of the parse-time payload with update() is compared with chmod's definition by an exhaustive 8-row truth table over (mode, who, perm) — a complete decision for all values and widths. "
        "The fold over the clause list (left to right from mode 0), the octal branch, the prefix table and the three emitted checks are structural."
    )
    c.decided = ["octal value = bits", "who/op/perm semantics of one clause", "clause lists by induction over the fold", "prefix → check kind", "mask/comparison of each check"]
    c.exhaustive = True
    consts = c02.flag_consts(facts)
    for name, val in posix.items():
        if name.startswith("S_I") and not name.startswith("S_IF"):
            c.ob("C08.consts", "permission_flags::values", name, consts.get(name) == int(val, 8), "%s = %s; POSIX %s" % (name, oct(consts.get(name) or 0), val), nontrivial=False)
    MASK = 0o7777
    # ---------------------------------------------------------------- evaluation set-up
    # Everything between the characters read and the Permission built is *evaluated* (vlib/probe.py, vlib/irval.py): the
    # clause parser on symbolic who / perm strings of three unknown characters each, update() on unknown payloads, the
    # map chains of the permission parser on every octal string and on a list of three unknown clauses.
    from .. import probe as P, irval

    b = peg.Builder(facts)
    g = peg.Grammar(b)
    pp = facts.fn("<PartialPermission as Parseable>::parse")
    pk = "<Permission as Parseable>::parse"
    # the letter → bits function(s): any function char -> Mode
    letter_fns = [fn for fn in facts.fns.values() if not fn.test and [t for n_, t in fn.params if n_ != "self"] == ["char"] and norm_ty(fn.node.get("output") or "") == "Mode"]
    fb = b.fn_ir(pp.key)
    # the parts of a clause in parsing order: character runs (who, perm) and the operator, which is either one character
    # of [+-=] or a choice between exactly those three literals (possibly in a helper parser with its own value per literal)
    parts = []

    def op_literals(n_):
        n0 = A.unwrap(n_)
        if n0["t"] == "ref" and not n0.get("extra"):
            sb = A.single_body(g.deref(n0))
            if sb is None:
                return None
            n0 = sb
        if n0["t"] != "alt":
            return None
        lits = []
        for a_ in A.flat_alts(n0):
            a0 = A.unwrap(a_)
            while a0["t"] in ("value", "map"):
                a0 = A.unwrap(a0["p"])
            if a0["t"] != "lit":
                return None
            lits.append(a0["s"])
        return lits

    def collect(n_):
        n0 = A.unwrap(n_)
        if n0["t"] == "set" and n0["cs"][0] == "in":
            parts.append((n0, "".join(sorted(n0["cs"][1])), (n0["min"], n0["max"])))
            return
        ol = op_literals(n0)
        if ol is not None:
            parts.append((n0, "".join(sorted(ol)) if all(len(x) == 1 for x in ol) else "|".join(ol), (1, 1)))
            return
        if n0["t"] in ("seq",):
            for it in n0["items"]:
                collect(it["p"])
        elif n0["t"] in ("map", "trymap", "verify", "value"):
            collect(n0["p"])

    for p_ in g.body_seq(fb):
        collect(p_)
    op_nodes = {}
    order = []
    for n, cs, rng in parts:
        role = {"agou": "who", "+-=": "op", "rwx": "perm"}.get(cs, "?" + cs)
        order.append(role)
        if role == "op":
            op_nodes[id(n)] = n
        want_rng = (1, None) if role != "op" else (1, 1)
        c.ob("C08.algebra", pp.key, "clause part %s = [%s]%s" % (role, cs, "+" if role != "op" else ""), role[0] != "?" and rng == want_rng, "parser element over %r, range %s..%s" % (cs, rng[0], rng[1]), nontrivial=False)
    c.ob("C08.algebra", pp.key, "clause parts are parsed in the order who, op, perm", order == ["who", "op", "perm"], "order of the clause parts in the parser: %s" % order, nontrivial=False)
    c.ob("C08.algebra", pp.key, "clause = who+ op perm+", sorted(order) == ["op", "perm", "who"], "roles: %s" % order)
    WHO = [P.Opq("who%d" % i_) for i_ in range(BN.N)]
    PERM = [P.Opq("perm%d" % i_) for i_ in range(BN.N)]

    class ClauseCtx(irval.Ctx):
        def __init__(self, op):
            irval.Ctx.__init__(self, facts, b, pp.module)
            self.op = op
            self.probe.opaque_calls = {f_.key for f_ in letter_fns}

        def leaf(self, node):
            cs = "".join(sorted(node["cs"][1])) if node["t"] == "set" and node["cs"][0] == "in" else None
            if cs == "agou":
                return list(WHO)
            if cs == "rwx":
                return list(PERM)
            if cs == "+-=":
                return self.op
            if node["t"] == "lit":
                return node["s"]
            raise P.NoEval("unexpected leaf %s" % peg.show(node)[:40])

        def choice(self, node):
            # the operator written as a choice between literals: the branch of the operator under evaluation
            for i_, a_ in enumerate(node["alts"]):
                a0 = A.unwrap(a_)
                while a0["t"] in ("value", "map"):
                    a0 = A.unwrap(a0["p"])
                if a0["t"] == "lit" and a0["s"] == self.op:
                    return i_
            raise P.NoEval("no branch for operator %r" % self.op)

    def tree_bits(t, asg):
        """One bit of a Mode expression tree under an assignment of its unknowns (bitwise operators only)."""
        if isinstance(t, bool):
            raise Unknown("boolean")
        if isinstance(t, int):
            if t == 0:
                return 0
            if t == MASK or t == asg.get("__all"):
                return 1
            raise Unknown("constant %s" % oct(t))
        if isinstance(t, P.Opq):
            if t.expr is None:
                if id(t) in asg:
                    return asg[id(t)]
                raise Unknown("unknown %r" % t)
            ex = t.expr
            if ex[0] == "call" and ex[1] in {f_.key for f_ in letter_fns} and len(ex[2]) == 1 and id(ex[2][0]) in asg:
                return asg[id(ex[2][0])]
            if ex[0] == "bin":
                a_, b_ = tree_bits(ex[2], asg), tree_bits(ex[3], asg)
                if ex[1] == "&":
                    return a_ & b_
                if ex[1] == "|":
                    return a_ | b_
                if ex[1] == "^":
                    return a_ ^ b_
                if ex[1] == "-":
                    return a_ & (1 - b_)
                raise Unknown("operator %s" % ex[1])
            if ex[0] == "not":
                return 1 - tree_bits(ex[1], asg)
            if ex[0] == "mcall":
                r_ = tree_bits(ex[2], asg)
                if ex[1] == "complement" and not ex[3]:
                    return 1 - r_
                if ex[1] in ("bits", "clone", "to_owned") and not ex[3]:
                    return r_
                if ex[1] in ("union", "intersection", "difference", "symmetric_difference") and len(ex[3]) == 1:
                    x_ = tree_bits(ex[3][0], asg)
                    return {"union": r_ | x_, "intersection": r_ & x_, "difference": r_ & (1 - x_), "symmetric_difference": r_ ^ x_}[ex[1]]
                raise Unknown("method .%s" % ex[1])
        raise Unknown("value %r" % (t,))

    # ---------------------------------------------------------------- who/perm table
    clause = {}
    clause_err = {}
    for op in "+-=":
        try:
            r = irval.run_parser_fn(pp, ClauseCtx(op))
            if isinstance(r, tuple) and r and r[0] == "ok" and isinstance(r[1], tuple) and r[1][0] == "enum":
                clause[op] = r[1]
            else:
                clause_err[op] = "result %r" % (r,)
        except (P.NoEval, P.Panic) as ex:
            clause_err[op] = str(ex)
    used = set()

    def calls(t):
        if isinstance(t, P.Opq) and t.expr:
            if t.expr[0] == "call":
                used.add(t.expr[1])
            for x in t.expr[1:]:
                for y in x if isinstance(x, list) else [x]:
                    calls(y)

    for cv in clause.values():
        for a_ in cv[2]:
            calls(a_)
    # which letter function the clause parser applies to the characters of each part
    applied = {"who": set(), "perm": set()}
    log_probe = ClauseCtx("=")
    try:
        irval.run_parser_fn(pp, log_probe)
        for k_, a_ in log_probe.probe.opaque_log:
            if len(a_) == 1 and any(a_[0] is x for x in WHO):
                applied["who"].add(k_)
            elif len(a_) == 1 and any(a_[0] is x for x in PERM):
                applied["perm"].add(k_)
            else:
                applied["who"].add("%s(not a character of the text)" % k_)
    except (P.NoEval, P.Panic):
        pass
    vfs = {r_: (facts.fns[sorted(ks)[0]] if len(ks) == 1 and sorted(ks)[0] in facts.fns else None) for r_, ks in applied.items()}
    upd = facts.fn("PartialPermission::update")
    # ---------------------------------------------------------------- concrete letters
    # Where the letters are not looked up by one `char -> Mode` function (a table of pairs, a lookup returning an Option, a
    # conversion inside verify_map, …) the clause parser is evaluated on *every* who string and perm string of up to three
    # letters of the alphabets its character runs accept, composed with update() on an unknown mode, and the result is compared
    # with chmod bit by bit (the mode taken as all-zeros and all-ones: with bitwise operators only, every bit position then sees
    # both values of the mode bit next to each constant bit).
    M0 = P.Opq("mode")

    def tree_int(t, mval):
        if isinstance(t, bool):
            raise Unknown("boolean")
        if isinstance(t, int):
            return t
        if isinstance(t, P.Opq):
            if t is M0:
                return mval
            ex = t.expr
            if ex is None:
                raise Unknown("unknown %r" % t)
            if ex[0] == "bin" and ex[1] in ("&", "|", "^", "-"):
                a_, b_ = tree_int(ex[2], mval), tree_int(ex[3], mval)
                return {"&": a_ & b_, "|": a_ | b_, "^": a_ ^ b_, "-": a_ & ~b_ & MASK}[ex[1]]
            if ex[0] == "not":
                return ~tree_int(ex[1], mval) & MASK
            if ex[0] == "mcall":
                r_ = tree_int(ex[2], mval)
                if ex[1] == "complement" and not ex[3]:
                    return ~r_ & MASK
                if ex[1] in ("bits", "clone", "to_owned") and not ex[3]:
                    return r_
                if ex[1] in ("union", "intersection", "difference", "symmetric_difference") and len(ex[3]) == 1:
                    x_ = tree_int(ex[3][0], mval)
                    return {"union": r_ | x_, "intersection": r_ & x_, "difference": r_ & ~x_ & MASK, "symmetric_difference": r_ ^ x_}[ex[1]]
                raise Unknown("method .%s" % ex[1])
            raise Unknown("expression %r" % (ex[0],))
        raise Unknown("value %r" % (t,))

    class ConcCtx(ClauseCtx):
        def __init__(self, op, who, perm):
            ClauseCtx.__init__(self, op)
            self.probe.opaque_calls = set()
            self.who, self.perm = who, perm

        def leaf(self, node):
            cs = "".join(sorted(node["cs"][1])) if node["t"] == "set" and node["cs"][0] == "in" else None
            if cs == "agou":
                return self.who
            if cs == "rwx":
                return self.perm
            return ClauseCtx.leaf(self, node)

    conc_cache = {}

    def concrete(op, who, perm):
        """(result from mode 0, result from mode 07777) of update(clause(who op perm), mode)"""
        k_ = (op, who, perm)
        if k_ not in conc_cache:
            r = irval.run_parser_fn(pp, ConcCtx(op, who, perm))
            if not (isinstance(r, tuple) and r and r[0] == "ok" and isinstance(r[1], tuple) and r[1][0] == "enum"):
                raise Unknown("clause %s%s%s evaluates to %r" % (who, op, perm, r))
            out = P.Probe(facts, None, upd.module).invoke(upd, r[1], [M0])
            conc_cache[k_] = (tree_int(out, 0) & MASK, tree_int(out, MASK) & MASK)
        return conc_cache[k_]

    def strings(alpha, upto):
        return ["".join(t_) for n_ in range(1, upto + 1) for t_ in itertools.product(alpha, repeat=n_)]

    def letters_value(table, text):
        v_ = 0
        for ch in text:
            v_ |= int(table[ch], 8)
        return v_

    conc_err = None
    if (vfs["who"] is None or vfs["perm"] is None or len(clause) < 3) and order == ["who", "op", "perm"]:
        try:
            concrete("=", "u", "r")
        except (Unknown, P.NoEval, P.Panic) as ex:
            conc_err = str(ex)
    else:
        conc_err = "not needed"
    if conc_err is None:
        c.analysed["C08 clause evaluation"] = "concrete letters: every who/perm string of up to %d letters" % BN.N
        for ch, val in list(posix["who"].items()) + list(posix["perm"].items()):
            # the value of one letter, read off a clause that hands it through: `X=rwx` from mode 0 is who(X), `a=X` is perm(X)
            try:
                got = concrete("=", ch, "rwx")[0] if ch in posix["who"] else concrete("=", "a", ch)[0]
            except (Unknown, P.NoEval, P.Panic) as ex:
                got = None
            wantv = int(val, 8) & 0o777
            c.ob("C08.who-perm", "Permission::value", "'%s' → %s" % (ch, val), got == wantv, "clause `%s` applied to mode 0 gives %s; chmod: %s" % ("%s=rwx" % ch if ch in posix["who"] else "a=%s" % ch, oct(got) if got is not None else None, oct(wantv)), witness="-perm %s" % ("%s+r" % ch if ch in "ugoa" else "u+%s" % ch) if got != wantv else None)
        bad, nstr = [], 0
        try:
            for w_ in strings("ugoa", BN.N):
                nstr += 1
                if concrete("=", w_, "rwx")[0] != letters_value(posix["who"], w_) & 0o777 and len(bad) < 3:
                    bad.append("%s=rwx → %s" % (w_, oct(concrete("=", w_, "rwx")[0])))
            for p_ in strings("rwx", BN.N):
                nstr += 1
                if concrete("=", "a", p_)[0] != letters_value(posix["perm"], p_) & 0o777 and len(bad) < 3:
                    bad.append("a=%s → %s" % (p_, oct(concrete("=", "a", p_)[0])))
            ok_or, det_or = not bad, "every who string and every perm string of up to " + str(BN.N) + " letters (%d strings) evaluated through the clause parser and update(): each is the OR of its letters%s" % (nstr, "" if not bad else "; EXCEPT " + "; ".join(bad))
        except (Unknown, P.NoEval, P.Panic) as ex:
            ok_or, det_or = None, "not evaluable: %s" % ex
        c.ob("C08.who-perm", "Permission::from_symbolic_str", "a who/perm string is the OR of its letters", ok_or, det_or)
    elif vfs["who"] is None or vfs["perm"] is None:
        c.ob("C08.who-perm", pp.key, "one letter → bits function", None, "letter functions applied by the clause parser: %s; %s; with concrete letters: %s" % ({r_: sorted(ks) for r_, ks in applied.items()}, clause_err, conc_err))
    else:
        from .. import roles as _roles

        for ch, val in list(posix["who"].items()) + list(posix["perm"].items()):
            vf = vfs["who"] if ch in posix["who"] else vfs["perm"]
            vname = "Permission::value"
            pr0 = P.Probe(facts, None, vf.module)
            try:
                got = pr0.invoke(vf, None, [ch])
            except (P.NoEval, P.Panic) as ex:
                got = None
            got = got if isinstance(got, int) and not isinstance(got, bool) else None
            c.ob("C08.who-perm", vname, "'%s' → %s" % (ch, val), got == int(val, 8), "%s('%s') = %s; chmod: %s" % (vf.key.split("::")[-1], ch, oct(got) if got is not None else None, val), witness="-perm %s" % ("%s+r" % ch if ch in "ugoa" else "u+%s" % ch) if got != int(val, 8) else None)
        # a who / perm string is the OR of its letters: decided on the payload of '=' (which carries both unchanged)
        ok_or, det_or = None, clause_err.get("=", "no '=' clause")
        if "=" in clause and len(clause["="][2]) == 2:
            try:
                bad = []
                for tree, xs in zip(clause["="][2], (WHO, PERM)):
                    for bits in itertools.product((0, 1), repeat=BN.N):
                        asg = {id(x): v for x, v in zip(xs, bits)}
                        if tree_bits(tree, asg) != (1 if any(bits) else 0):
                            bad.append((repr(tree)[:60], bits))
                ok_or = not bad
                det_or = "the two parts of a clause evaluated on " + str(BN.N) + " unknown letters each: every one is the OR of value(letter) over the letters (%d rows each)" % (2 ** BN.N) + "%s" % ("" if not bad else "; EXCEPT %s" % bad[:2])
            except Unknown as ex:
                det_or = "not a bitwise expression of the letters: %s" % ex
        c.ob("C08.who-perm", "Permission::from_symbolic_str", "a who/perm string is the OR of its letters", ok_or, det_or)
    # ---------------------------------------------------------------- clause algebra
    for op, ref in chmod["algebra"].items():
        inst = "operator '%s' ≡ %s" % (op, ref)
        if conc_err is None:
            diffs, nev = [], 0
            try:
                for w_ in strings("ugoa", 2):
                    for p_ in strings("rwx", 2):
                        t_all, l_all = letters_value(posix["who"], w_), letters_value(posix["perm"], p_)
                        for mi, mval in enumerate((0, MASK)):
                            got_all = concrete(op, w_, p_)[mi]
                            want_all = pyeval(ref, mval, t_all, l_all, MASK)
                            nev += 1
                            if got_all == want_all:
                                continue
                            for bit in range(12):
                                row = ((mval >> bit) & 1, (t_all >> bit) & 1, (l_all >> bit) & 1, (got_all >> bit) & 1, (want_all >> bit) & 1)
                                if row[3] != row[4] and row not in diffs:
                                    diffs.append(row)
            except (Unknown, P.NoEval, P.Panic) as e:
                c.ob("C08.algebra", pp.key, inst, None, "expression not evaluable: %s" % e)
                continue
            wit = None
            if diffs:
                m_, t_, l_, got, want = diffs[0]
                wit = {"+": "-perm u+r", "-": "-perm u+rwx,u-r  (chmod: 0300)", "=": "-perm a+rwx,u=r"}[op] + "  — truth-table row (mode,who,perm)=(%d,%d,%d): code gives %d, chmod %d" % (m_, t_, l_, got, want)
            c.ob("C08.algebra", "PartialPermission", inst, not diffs, "%d clauses (who and perm strings of one or two letters, from mode 0 and mode 07777) evaluated through the clause parser and update(): %d (mode, who, perm) bit classes differ from chmod%s" % (nev, len(diffs), (" " + str(sorted(diffs))) if diffs else ""), witness=wit, facts={"rows": 8, "differ": sorted(diffs)})
            continue
        if op not in clause:
            c.ob("C08.algebra", pp.key, inst, None, "clause with operator %r could not be evaluated: %s" % (op, clause_err.get(op)))
            continue
        cv = clause[op]
        M = P.Opq("mode")
        diffs = []
        try:
            pru = P.Probe(facts, None, upd.module)
            out = pru.invoke(upd, cv, [M])
            for m_ in (0, 1):
                for tb in itertools.product((0, 1), repeat=BN.N):
                    for lb in itertools.product((0, 1), repeat=BN.N):
                        asg = {id(M): m_}
                        asg.update({id(x): v for x, v in zip(WHO, tb)})
                        asg.update({id(x): v for x, v in zip(PERM, lb)})
                        t_, l_ = int(any(tb)), int(any(lb))
                        got = tree_bits(out, asg)
                        want = pyeval(ref, m_, t_, l_, 1)
                        if got != want and (m_, t_, l_, got, want) not in diffs:
                            diffs.append((m_, t_, l_, got, want))
        except (Unknown, P.NoEval, P.Panic) as e:
            c.ob("C08.algebra", pp.key, inst, None, "expression not evaluable: %s" % e)
            continue
        wit = None
        if diffs:
            m_, t_, l_, got, want = diffs[0]
            wit = {"+": "-perm u+r", "-": "-perm u+rwx,u-r  (chmod: 0300)", "=": "-perm a+rwx,u=r"}[op] + "  — truth-table row (mode,who,perm)=(%d,%d,%d): code gives %d, chmod %d" % (m_, t_, l_, got, want)
        c.ob(
            "C08.algebra",
            "PartialPermission",
            inst,
            not diffs,
            "clause built for %r: %s(%s); composed with update(): %d of 8 (mode, who, perm) classes differ from chmod%s" % (op, cv[1].split("::")[-1], ", ".join(repr(a_)[:70] for a_ in cv[2]), len(diffs), (" " + str(diffs)) if diffs else ""),
            witness=wit,
            facts={"rows": 8, "differ": diffs},
        )
    # ---------------------------------------------------------------- fold / octal
    body = A.single_body(b.fn_ir(pk))
    alts = [A.unwrap(a) for a in A.flat_alts(body)] if body is not None else []

    def leaf_of(a):
        inner = a
        while inner["t"] in ("map", "ctx", "cut", "trymap", "verify"):
            inner = inner["p"]
        return inner

    octal = next((a for a in alts if leaf_of(a)["t"] == "set"), None)
    symb = next((a for a in alts if leaf_of(a)["t"] == "sep"), None)
    pmod = facts.fn(pk).module
    if octal is not None:
        st = leaf_of(octal)
        bounded = st["max"] is not None and 8 ** st["max"] - 1 <= MASK and st["min"] >= 3
        digits_ok = st["cs"] == peg.cs_in("01234567")
        bad, nstr = [], 0
        if st["cs"][0] == "in" and st["max"] is not None and st["max"] <= 5 and len(st["cs"][1]) <= 10:

            class OctCtx(irval.Ctx):
                def leaf(self, node):
                    return self.text

            ctx = OctCtx(facts, b, pmod)
            for n_ in range(max(st["min"], 1), st["max"] + 1):
                for tup in itertools.product(sorted(st["cs"][1]), repeat=n_):
                    ctx.text = "".join(tup)
                    nstr += 1
                    try:
                        v = irval.value(octal, ctx)
                        want_v = ("enum", "Permission", [int(ctx.text, 8)]) if all(ch in "01234567" for ch in ctx.text) else None
                        if v != want_v and len(bad) < 3:
                            bad.append("%s → %r" % (ctx.text, v))
                    except P.Panic as ex:
                        if len(bad) < 3:
                            bad.append("%s → panic (%s)" % (ctx.text, ex))
                    except P.NoEval as ex:
                        bad.append("not evaluable: %s" % ex)
                        break
                if bad and "not evaluable" in bad[-1]:
                    break
        else:
            bad.append("the digit run is not a bounded run over a small alphabet")
        from .. import report as _rep8

        _rep8.require(c, facts, "c05", "C08.octal", pk, "the whole argument word is the mode (nothing after it is dropped)", lambda o: o["rule"] == "C05.whole-arg" and "Perm" in o["instance"], "`-perm 00644` must not be read as its first four digits: that the nested parse of the word consumes it entirely is decided by C05.whole-arg")
        c.ob("C08.octal", pk, "octal digits, radix 8, exact bit conversion", digits_ok and not bad, "digits %s; every one of the %d digit strings the run can match evaluated through the map chain%s" % (peg.cs_show(st["cs"]), nstr, "" if not bad else ": " + "; ".join(bad)))
        c.ob("C08.octal", pk, "the permission is exactly the mode of the octal value", not bad and nstr > 0, "for each of the %d strings X the value is Permission(bits = X read in base 8), nothing masked, nothing panics%s" % (nstr, "" if not bad else "; EXCEPT " + "; ".join(bad)), witness="-perm 4755" if bad else None)
        c.ob(
            "C08.octal",
            pk,
            "3 or 4 digits (value ≤ 07777)",
            bounded,
            "the digit run takes %s..%s digits; 8^max−1 must fit the twelve permission bits (else from_bits().unwrap() panics or the value is out of range)" % (st["min"], st["max"] if st["max"] is not None else "∞"),
            witness="-perm 10000" if not bounded else None,
        )
        both = st["min"] <= 3 and st["max"] is not None and st["max"] >= 4
        c.ob("C08.octal", pk, "the 3-digit and the 4-digit spelling are both accepted", both, "the digit run takes %s..%s digits: `644` and `0644` (and `4755`) must both be octal modes" % (st["min"], st["max"] if st["max"] is not None else "∞"), witness="-perm 0644" if not both else None)
    else:
        c.ob("C08.octal", pk, "octal branch present", False, "octal alternative not found")
    if symb is not None:
        sp = leaf_of(symb)
        sepok = A.unwrap(sp["sep"])["t"] == "lit" and A.unwrap(sp["sep"])["s"] == "," and sp["min"] == 1 and sp["max"] is None and A.unwrap(sp["p"])["t"] == "ref" and A.unwrap(sp["p"])["fn"] == pp.key
        CL = [P.Opq("clause%d" % i_) for i_ in range(BN.N)]

        class FoldCtx(irval.Ctx):
            def rep(self, node):
                return list(CL)

        okw, okf, det = None, None, ""
        try:
            v = irval.value(symb, FoldCtx(facts, b, pmod))
            # Permission(update(c2, update(c1, update(c0, 0))))
            def unfold(t):
                seq = []
                while isinstance(t, P.Opq) and t.expr and ((t.expr[0] == "mcall" and t.expr[1] == upd.name and len(t.expr[3]) == 1) or (t.expr[0] == "call" and t.expr[1] == upd.key and len(t.expr[2]) == 2)):
                    if t.expr[0] == "mcall":
                        seq.append(t.expr[2])
                        t = t.expr[3][0]
                    else:
                        seq.append(t.expr[2][0])
                        t = t.expr[2][1]
                return seq, t

            det = "clause list [c0, c1, c2] becomes `%r`" % (v,)
            okw = isinstance(v, tuple) and v and v[0] == "enum" and v[1] == "Permission" and len(v[2]) == 1
            if okw:
                seq, seed = unfold(v[2][0])
                okw = len(seq) == BN.N and {id(x) for x in seq} == {id(x) for x in CL}
                okf = okw and [id(x) for x in seq] == [id(x) for x in reversed(CL)] and seed == 0
        except (P.NoEval, P.Panic) as ex:
            det = "the map chain over the clause list is not evaluable: %s" % ex
        c.ob("C08.fold", pk, "the permission is exactly the folded mode", okw, det[:300] + "; required Permission(update applied once per clause) with nothing else applied to the mode", witness="-perm u+s" if not okw else None)
        c.ob("C08.fold", pk, "clauses separated by ',' and applied left to right from mode 0", (sepok and okf) if okf is not None else None, det[:200] + "; separator/min ok: %s" % sepok, witness="-perm u+r,u-r" if okf is False else None)
    else:
        c.ob("C08.fold", pk, "symbolic branch present", False, "symbolic alternative not found")
    from .. import mir as _mir

    # the accumulation may sit in a helper the permission parser is written with (`comma_list(item)`): every parser function
    # of the crate its resolved body reaches counts as an owner
    m8 = _mir.load(True)
    roots8 = [q for q in m8.bodies if _mir.e1_key(q, facts) == pk]
    def _bare_accumulation(key):
        # a helper that IS the winnow accumulation and nothing else (`fn comma_list(item) { separated(1.., item, ",") }`): a
        # wrapper that does anything to the collected list afterwards (dedup, sort, map) does not qualify
        try:
            sb_ = A.single_body(b.fn_ir(key))
        except Exception:
            return False
        n_ = A.unwrap(sb_) if sb_ is not None else None
        while n_ is not None and n_["t"] in ("ctx", "cut"):
            n_ = A.unwrap(n_["p"])
        return n_ is not None and n_["t"] in ("sep", "rep")

    owners8 = sorted({k_ for k_ in (_mir.e1_key(q, facts) for q in m8.reachable(roots8)) if k_ is not None and k_ != pk and k_ in facts.fns and facts.fns[k_].impl is None and _bare_accumulation(k_)} | {pk})
    nacc = _mir.order_rule(c, facts, "C08.fold", owners8, "clauses must be applied in the order written (u+r,u-r ≠ u-r,u+r) and none may be dropped")
    c.ob("C08.fold", pk, "the clause list is an accumulation of the resolved program", nacc >= 1, "%d winnow accumulation(s) found in %s" % (nacc, pk), nontrivial=False)
    # ---------------------------------------------------------------- prefix
    scope = b.scope(pp.module)
    cs = A.comparison_shape(g, b.fn_ir("<PermCheck as Parseable>::parse"), scope)
    c.ob("C08.prefix", "<PermCheck as Parseable>::parse", "'/' any, '-' at least, none equal", cs is not None and cs["table"] == chmod["prefix"] and cs["order"][-1] == "", "prefix table %s, order %s; reference %s with the bare form last" % (cs["table"] if cs else None, cs["order"] if cs else None, chmod["prefix"]), witness="-perm /222" if not (cs and cs["table"] == chmod["prefix"]) else None)
    same = cs is not None and len({i["fn"] for i in cs["inners"]}) == 1 and all(cs["into"])
    c.ob("C08.prefix", "<PermCheck as Parseable>::parse", "same permission parser after every prefix", same, "inner parsers %s" % ([i["fn"] for i in cs["inners"]] if cs else None), nontrivial=False)
    # ---------------------------------------------------------------- check
    rows = codegen.expand(codegen.table(facts, "<Test as TargetScheme>::compile"))
    TSITE = "<Test as TargetScheme>::compile"
    P_RE = re.compile(r"\{\$PermCheck\.0\.0\.bits\(\)\}")
    want = {
        "Equal": ["(", "=", "(", "logand", "(", "mode", ")", "MASK", ")", "P", ")"],
        "AtLeast": ["(", "=", "(", "logand", "(", "mode", ")", "P", ")", "P", ")"],
        "Any": ["(", "not", "(", "=", "(", "logand", "(", "mode", ")", "P", ")", "0", ")", ")"],
    }
    maskval = None
    for kind, exp in want.items():
        row = rows.get("self∈Test::Perm ∧ $Test.0∈PermCheck::%s" % kind)
        toks = list(row["tokens"]) if row else None
        ok = False
        if toks and len(toks) == len(exp):
            ok = True
            for t, e_ in zip(toks, exp):
                if e_ == "P":
                    ok = ok and P_RE.fullmatch(t) is not None
                elif e_ == "MASK":
                    # a constant: the interpreter folds flag expressions, so the mask appears as a number
                    if re.fullmatch(r"\d+", t):
                        maskval = int(t)
                    else:
                        ok = False
                else:
                    ok = ok and t == e_
        c.ob("C08.check", TSITE, kind, ok, "emits `%s`" % (" ".join(toks) if toks else None), witness="-perm %s644" % {"Equal": "", "AtLeast": "-", "Any": "/"}[kind] if not ok else None)
    c.ob("C08.check", TSITE, "the Equal mask is all twelve permission bits", maskval is not None and maskval == int(posix["perm_mask"], 8), "mask %s; POSIX %s" % (oct(maskval) if maskval is not None else None, posix["perm_mask"]))
    c.control("C08.algebra", any(pyeval("m & ~(t & ~l)", m_, t_, l_, 1) != pyeval(chmod["algebra"]["-"], m_, t_, l_, 1) for m_, t_, l_ in itertools.product((0, 1), repeat=3)), "fixture m∧¬(t∧¬l) differs from chmod '-' on the truth table")
