"""C08 — permission arguments denote the bits chmod would compute (tables + exhaustive truth tables)."""
import itertools
import json
import os
import re

from .. import facts as F
from .. import codegen, emit, rx, peg, args as A
from ..facts import src, psrc, find_all, norm_ty
from . import c02

POSIX = os.path.join(F.VERIF, "spec", "posix_mode.json")
CHMOD = os.path.join(F.VERIF, "spec", "chmod.json")


class Unknown(Exception):
    pass


def bv(e, env, consts):
    """Evaluate a bit-vector expression of the Rust AST over python ints. env: name -> int."""
    e = rx.peel(e)
    k = e["k"]
    if k == "path":
        if len(e["segs"]) == 1:
            if e["segs"][0] in env:
                return env[e["segs"][0]]
            raise Unknown(src(e))
        name = e["segs"][-1]
        if name in consts:
            return consts[name]
        raise Unknown(src(e))
    if k == "lit" and e["t"] == "int":
        return int(e["v"])
    if k == "binary":
        a, b = bv(e["lhs"], env, consts), bv(e["rhs"], env, consts)
        op = e["op"]
        if op == "&":
            return a & b
        if op == "|":
            return a | b
        if op == "^":
            return a ^ b
        if op == "-":
            return a & ~b & env["__mask"]  # bitflags Sub = difference
        raise Unknown("operator " + op)
    if k == "unary" and e["op"] == "!":
        return ~bv(e["e"], env, consts) & env["__mask"]
    if k == "mcall":
        m = e["m"]
        r = bv(e["recv"], env, consts)
        if m == "complement" and not e["args"]:
            return ~r & env["__mask"]
        if m in ("union", "intersection", "difference", "symmetric_difference") and len(e["args"]) == 1:
            x = bv(e["args"][0], env, consts)
            return {"union": r | x, "intersection": r & x, "difference": r & ~x & env["__mask"], "symmetric_difference": r ^ x}[m]
        if m in ("bits", "clone", "to_owned") and not e["args"]:
            return r
        raise Unknown("method ." + m)
    if k == "block":
        env = dict(env)
        val = None
        for st in e["stmts"]:
            if st["k"] == "let" and st["pat"]["k"] == "ident":
                env[st["pat"]["name"]] = bv(st["init"], env, consts)
            elif st["k"] == "expr":
                val = bv(st["e"], env, consts)
            else:
                raise Unknown(src(st))
        if val is None:
            raise Unknown("block without value")
        return val
    raise Unknown(src(e)[:60])


def pyeval(expr, m, t, l, mask):
    return eval(expr, {"__builtins__": {}}, {"m": m, "t": t, "l": l}) & mask



from ..valueflow import compose_maps

def run(c, facts, tier):
    posix = json.load(open(POSIX))
    chmod = json.load(open(CHMOD))
    c.trusted = ["E1 extractor", "combinator IR", "spec/posix_mode.json, spec/chmod.json (POSIX)"]
    c.explanation = (
        "Constants and who/permission tables are constant-folded and compared with POSIX. The clause algebra uses only bitwise operators, so each operator is the same Boolean function on every bit position: "
        "the composition of the parse-time payload with update() is compared with chmod's definition by an exhaustive 8-row truth table over (mode, who, perm) — a complete decision for all values and widths. "
        "The fold over the clause list (left to right from mode 0), the octal branch, the prefix table and the three emitted checks are structural."
    )
    c.decided = ["octal value = bits", "who/op/perm semantics of one clause", "clause lists by induction over the fold", "prefix → check kind", "mask/comparison of each check"]
    c.exhaustive = True
    consts = c02.flag_consts(facts)
    for name, val in posix.items():
        if name.startswith("S_I") and not name.startswith("S_IF"):
            c.ob("C08.consts", "permission_flags::values", name, consts.get(name) == int(val, 8), "%s = %s; POSIX %s" % (name, oct(consts.get(name) or 0), val), nontrivial=False)
    MASK = 0o7777
    # ---------------------------------------------------------------- who/perm table
    vf = facts.fn("Permission::value")
    body = rx.tail_expr(vf.body)
    table = {}
    if body is not None and body["k"] == "match":
        for arm in body["arms"]:
            for p in rx.pat_cases(arm["pat"]):
                if p["k"] == "lit":
                    try:
                        table[p["v"]] = bv(arm["body"], {"__mask": MASK}, consts)
                    except Unknown as e:
                        table[p["v"]] = None
    for ch, val in list(posix["who"].items()) + list(posix["perm"].items()):
        c.ob("C08.who-perm", vf.key, "'%s' → %s" % (ch, val), table.get(ch) == int(val, 8), "value('%s') = %s; chmod: %s" % (ch, oct(table[ch]) if table.get(ch) is not None else None, val), witness="-perm %s" % ("%s+r" % ch if ch in "ugoa" else "u+%s" % ch) if table.get(ch) != int(val, 8) else None)
    fs = facts.fn("Permission::from_symbolic_str")
    base, chain = rx.method_chain(rx.tail_expr(fs.body))
    ms = [m for m, _, _ in chain]
    red = [a for m, a, _ in chain if m in ("reduce", "fold")]
    ok = ms[-3:] == ["chars", "map", "reduce"] or ms[-2:] == ["map", "reduce"]
    if red and red[0] and red[0][-1]["k"] == "closure":
        cb = rx.closure_body(red[0][-1])
        ps = [p.get("name") for p in rx.closure_params(red[0][-1])]
        ok = ok and cb["k"] == "binary" and cb["op"] == "|" and sorted([rx.var_name(cb["lhs"]), rx.var_name(cb["rhs"])]) == sorted(ps)
    else:
        ok = False
    mp = [a for m, a, _ in chain if m == "map"]
    ok = ok and mp and (rx.path_str(mp[0][0]) or "").split("::")[-1] == vf.name
    c.ob("C08.who-perm", fs.key, "a who/perm string is the OR of its letters", ok, "from_symbolic_str = %s" % ms)
    # ---------------------------------------------------------------- clause algebra
    pp = facts.fn("<PartialPermission as Parseable>::parse")
    b = peg.Builder(facts)
    g = peg.Grammar(b)
    fb = b.fn_ir(pp.key)
    roles = {}
    # the three parts of a clause, however they are bound: one tuple step, or one step per part
    for nm, n in g.bindings(fb).items():
        n = A.unwrap(n)
        if n["t"] == "set" and n["cs"][0] == "in":
            cs = "".join(sorted(n["cs"][1]))
            roles[nm] = {"agou": "who", "+-=": "op", "rwx": "perm"}.get(cs, "?" + cs)
            want_rng = (1, None) if cs != "+-=" else (1, 1)
            c.ob("C08.algebra", pp.key, "clause part %s = [%s]%s" % (roles[nm], cs, "+" if cs != "+-=" else ""), roles[nm][0] != "?" and (n["min"], n["max"]) == want_rng, "parser element %s range %s..%s" % (peg.cs_show(n["cs"]), n["min"], n["max"]), nontrivial=False)
    order = [roles.get(rx.pat_bindings(p_)[0]) if rx.pat_bindings(p_) else None for st_ in fb["steps"] for p_ in (st_["pat"]["elems"] if st_["pat"]["k"] == "tuple" else [st_["pat"]])]
    c.ob("C08.algebra", pp.key, "clause parts are parsed in the order who, op, perm", [o for o in order if o] == ["who", "op", "perm"], "order of the clause parts in the parser: %s" % order, nontrivial=False)
    c.ob("C08.algebra", pp.key, "clause = who+ op perm+", sorted(roles.values()) == ["op", "perm", "who"], "roles: %s" % roles)
    # let (target_mode, level_mode) = (from_symbolic_str(target).unwrap(), from_symbolic_str(level).unwrap())
    var_role = {}
    for st in fb["lets"]:
        if st["pat"]["k"] == "tuple" and st["init"]["k"] == "tuple":
            for p, e in zip(st["pat"]["elems"], st["init"]["elems"]):
                calls = find_all(e, lambda n: n.get("k") == "call" and n["f"]["k"] == "path" and n["f"]["segs"][-1] == fs.name)
                if calls and rx.var_name(calls[0]["args"][0]) in roles:
                    var_role[rx.pat_bindings(p)[0]] = roles[rx.var_name(calls[0]["args"][0])]
        elif st["pat"]["k"] == "ident":
            calls = find_all(st["init"], lambda n: n.get("k") == "call" and n["f"]["k"] == "path" and n["f"]["segs"][-1] == fs.name)
            if calls and rx.var_name(calls[0]["args"][0]) in roles:
                var_role[st["pat"]["name"]] = roles[rx.var_name(calls[0]["args"][0])]
    opname = next((k for k, v in roles.items() if v == "op"), None)
    ret = fb["ret"]
    ctor_of = {}
    if ret is not None and rx.peel(ret)["k"] == "match" and rx.is_var(rx.peel(ret)["scrut"], opname):
        for arm in rx.peel(ret)["arms"]:
            for p in rx.pat_cases(arm["pat"]):
                if p["k"] == "lit":
                    bd = rx.peel(arm["body"])
                    if bd["k"] == "call" and bd["f"]["k"] == "path":
                        ctor_of[p["v"]] = (bd["f"]["segs"][-1], bd["args"])
    upd = facts.fn("PartialPermission::update")
    ub = rx.tail_expr(upd.body)
    modeparam = upd.params[0][0] if upd.params else "mode"
    arms = {}
    if ub is not None and ub["k"] == "match":
        for arm in ub["arms"]:
            for p in rx.pat_cases(arm["pat"]):
                pv = rx.pat_variant(p)
                if pv:
                    arms[pv[0].split("::")[-1]] = ([rx.pat_bindings(x)[0] if rx.pat_bindings(x) else None for x in pv[1]], arm["body"])
    for op, ref in chmod["algebra"].items():
        inst = "operator '%s' ≡ %s" % (op, ref)
        if op not in ctor_of:
            c.ob("C08.algebra", pp.key, inst, None, "no arm for operator %r" % op)
            continue
        variant, cargs = ctor_of[op]
        if variant not in arms:
            c.ob("C08.algebra", upd.key, inst, None, "update() has no arm for %s" % variant)
            continue
        binds, body = arms[variant]
        diffs = []
        try:
            for m_, t_, l_ in itertools.product((0, 1), repeat=3):
                env = {"__mask": 1}
                for nm, role in var_role.items():
                    env[nm] = t_ if role == "who" else l_
                payload = [bv(a, env, {}) for a in cargs]
                env2 = {"__mask": 1, modeparam: m_}
                for bn, pv_ in zip(binds, payload):
                    if bn:
                        env2[bn] = pv_
                got = bv(body, env2, {})
                want = pyeval(ref, m_, t_, l_, 1)
                if got != want:
                    diffs.append((m_, t_, l_, got, want))
        except Unknown as e:
            c.ob("C08.algebra", pp.key, inst, None, "expression not evaluable: %s" % e)
            continue
        wit = None
        if diffs:
            m_, t_, l_, got, want = diffs[0]
            wit = {"+": "-perm u+r", "-": "-perm u+rwx,u-r  (chmod: 0300)", "=": "-perm a+rwx,u=r"}[op] + "  — truth-table row (mode,who,perm)=(%d,%d,%d): code gives %d, chmod %d" % (m_, t_, l_, got, want)
        c.ob(
            "C08.algebra",
            "PartialPermission",
            inst,
            not diffs,
            "payload %s(%s) composed with update() `%s`: %d of 8 truth-table rows differ from chmod%s" % (variant, ", ".join(src(a) for a in cargs), src(body)[:80], len(diffs), (" " + str(diffs)) if diffs else ""),
            witness=wit,
            facts={"rows": 8, "differ": diffs},
        )
    # ---------------------------------------------------------------- fold / octal
    pk = "<Permission as Parseable>::parse"
    body = A.single_body(b.fn_ir(pk))
    alts = [A.unwrap(a) for a in A.flat_alts(body)] if body is not None else []
    octal, symb = None, None
    for a in alts:
        inner = a
        maps = []
        while inner["t"] in ("map", "ctx", "cut"):
            if inner["t"] == "map":
                maps.append(inner["f"])
            inner = inner["p"]
        if inner["t"] == "set":
            octal = (inner, maps)
        elif inner["t"] == "sep":
            symb = (inner, maps)
    oko = None
    det = "octal alternative not found"
    if octal:
        st, maps = octal
        txt = " ".join(src(m) for m in maps)
        radix = [rx.int_const(n["args"][1]) for m in maps for n in find_all(m, lambda n: n.get("k") == "call" and n["f"]["k"] == "path" and n["f"]["segs"][-1] == "from_str_radix")]
        exact = bool([n for m in maps for n in find_all(m, lambda n: n.get("k") == "call" and n["f"]["k"] == "path" and n["f"]["segs"][-1] == "from_bits")]) and "from_bits_truncate" not in txt and "from_bits_retain" not in txt
        oko = st["cs"] == peg.cs_in("01234567") and radix == [8] and exact
        det = "digits %s, radix %s, exact from_bits: %s" % (peg.cs_show(st["cs"]), radix, exact)
        c.ob("C08.octal", pk, "octal digits, radix 8, exact bit conversion", oko, det)
        env_ = {"__module": facts.fn(pk).module, "__tsubst": {}}
        comp = compose_maps(maps, facts, b, env_, "Permission")
        want_comp = "Permission(Mode::from_bits(u32::from_str_radix(X,8).unwrap()).unwrap())"
        c.ob("C08.octal", pk, "the permission is exactly the mode of the octal value", comp is not None and re.sub(r"\s", "", comp) == want_comp, "digits X become `%s`; required `%s` (no masking or other arithmetic on the way, conversions through From impls inlined)" % (comp, want_comp), witness="-perm 4755" if comp != want_comp else None)
        bounded = st["max"] is not None and 8 ** st["max"] - 1 <= MASK and st["min"] >= 3
        c.ob(
            "C08.octal",
            pk,
            "3 or 4 digits (value ≤ 07777)",
            bounded,
            "the digit run takes %s..%s digits; 8^max−1 must fit the twelve permission bits (else from_bits().unwrap() panics or the value is out of range)" % (st["min"], st["max"] if st["max"] is not None else "∞"),
            witness="-perm 10000" if not bounded else None,
        )
    else:
        c.ob("C08.octal", pk, "octal branch present", False, det)
    okf = None
    det = "symbolic alternative not found"
    if symb:
        sp, maps = symb
        sepok = A.unwrap(sp["sep"])["t"] == "lit" and A.unwrap(sp["sep"])["s"] == "," and sp["min"] == 1 and sp["max"] is None and A.unwrap(sp["p"])["t"] == "ref" and A.unwrap(sp["p"])["fn"] == pp.key
        folds = [n for m in maps for n in find_all(m, lambda n: n.get("k") == "mcall" and n["m"] == "fold")]
        fold_ok = False
        if len(folds) == 1:
            f = folds[0]
            base, chain = rx.method_chain(f["recv"])
            ms = [m for m, _, _ in chain]
            seed = f["args"][0]
            clo = f["args"][1]
            zeros = [rx.int_const(n["args"][0]) for n in find_all(seed, lambda n: n.get("k") == "call" and n["f"]["k"] == "path" and n["f"]["segs"][-1] in ("from_bits", "from_bits_truncate", "from_bits_retain"))]
            seed_ok = zeros == [0] or src(seed) in ("Mode::empty()",)
            if clo["k"] == "closure" and len(clo["params"]) == 2:
                acc, e_ = [rx.pat_bindings(p)[0] for p in rx.closure_params(clo)]
                cb = rx.closure_body(clo)
                step_ok = cb["k"] == "mcall" and cb["m"] == upd.name and rx.is_var(cb["recv"], e_) and len(cb["args"]) == 1 and rx.is_var(cb["args"][0], acc)
                fold_ok = seed_ok and step_ok and ms in (["iter"], ["into_iter"])
            det = "fold over %s from %s with step `%s`" % (ms, src(seed), src(clo)[:50])
        okf = sepok and fold_ok
        comp_s = compose_maps(maps, facts, b, {"__module": facts.fn(pk).module, "__tsubst": {}}, "Permission")
        okw = comp_s is not None and re.fullmatch(r"Permission\(X\.(iter|into_iter)\(\)\.fold\(.*\)\)", re.sub(r"\s", "", comp_s)) is not None
        c.ob("C08.fold", pk, "the permission is exactly the folded mode", okw, "clause list X becomes `%s`; required `Permission(X.iter().fold(..))` with nothing applied to the folded mode" % (comp_s[:140] if comp_s else None), witness="-perm u+s" if not okw else None)
        c.ob("C08.fold", pk, "clauses separated by ',' and applied left to right from mode 0", okf, det + "; separator/min ok: %s" % sepok, witness="-perm u+r,u-r" if okf is False else None)
    else:
        c.ob("C08.fold", pk, "symbolic branch present", False, det)
    from .. import mir as _mir

    nacc = _mir.order_rule(c, facts, "C08.fold", [pk], "clauses must be applied in the order written (u+r,u-r ≠ u-r,u+r) and none may be dropped")
    c.ob("C08.fold", pk, "the clause list is an accumulation of the resolved program", nacc >= 1, "%d winnow accumulation(s) found in %s" % (nacc, pk), nontrivial=False)
    # ---------------------------------------------------------------- prefix
    scope = b.scope(pp.module)
    cs = A.comparison_shape(g, b.fn_ir("<PermCheck as Parseable>::parse"), scope)
    c.ob("C08.prefix", "<PermCheck as Parseable>::parse", "'/' any, '-' at least, none equal", cs is not None and cs["table"] == chmod["prefix"] and cs["order"][-1] == "", "prefix table %s, order %s; reference %s with the bare form last" % (cs["table"] if cs else None, cs["order"] if cs else None, chmod["prefix"]), witness="-perm /222" if not (cs and cs["table"] == chmod["prefix"]) else None)
    same = cs is not None and len({i["fn"] for i in cs["inners"]}) == 1 and all(cs["into"])
    c.ob("C08.prefix", "<PermCheck as Parseable>::parse", "same permission parser after every prefix", same, "inner parsers %s" % ([i["fn"] for i in cs["inners"]] if cs else None), nontrivial=False)
    # ---------------------------------------------------------------- check
    rows = codegen.expand(codegen.table(facts, "<Test as TargetScheme>::compile"))
    TSITE = "<Test as TargetScheme>::compile"
    P_RE = re.compile(r"\{\$PermCheck\.0\.0\.bits\(\)\}")
    want = {
        "Equal": ["(", "=", "(", "logand", "(", "mode", ")", "MASK", ")", "P", ")"],
        "AtLeast": ["(", "=", "(", "logand", "(", "mode", ")", "P", ")", "P", ")"],
        "Any": ["(", "not", "(", "=", "(", "logand", "(", "mode", ")", "P", ")", "0", ")", ")"],
    }
    maskval = None
    for kind, exp in want.items():
        row = rows.get("self∈Test::Perm ∧ $Test.0∈PermCheck::%s" % kind)
        toks = list(row["tokens"]) if row else None
        ok = False
        if toks and len(toks) == len(exp):
            ok = True
            for t, e_ in zip(toks, exp):
                if e_ == "P":
                    ok = ok and P_RE.fullmatch(t) is not None
                elif e_ == "MASK":
                    # a constant: the interpreter folds flag expressions, so the mask appears as a number
                    if re.fullmatch(r"\d+", t):
                        maskval = int(t)
                    else:
                        ok = False
                else:
                    ok = ok and t == e_
        c.ob("C08.check", TSITE, kind, ok, "emits `%s`" % (" ".join(toks) if toks else None), witness="-perm %s644" % {"Equal": "", "AtLeast": "-", "Any": "/"}[kind] if not ok else None)
    c.ob("C08.check", TSITE, "the Equal mask is all twelve permission bits", maskval is not None and maskval == int(posix["perm_mask"], 8), "mask %s; POSIX %s" % (oct(maskval) if maskval is not None else None, posix["perm_mask"]))
    c.control("C08.algebra", any(pyeval("m & ~(t & ~l)", m_, t_, l_, 1) != pyeval(chmod["algebra"]["-"], m_, t_, l_, 1) for m_, t_, l_ in itertools.product((0, 1), repeat=3)), "fixture m∧¬(t∧¬l) differs from chmod '-' on the truth table")
