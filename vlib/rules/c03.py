"""C03 — totality: never a crash or hang.  E2 census of every panic-capable site in the crate (both profiles in the
thorough tier), each discharged by a named argument form with a machine-checked premise on E1 facts."""
import itertools
import re

from .. import facts as F
from .. import mir, peg, rx, kw, codegen, emit, args as A
from ..anchors import Anchors
from ..facts import src, psrc, find_all, norm_ty
from . import c05, c13, c14
from .. import bounds as BN

# resolved callee paths that can panic (std API); arithmetic operator traits are handled separately
PANIC_API = re.compile(
    r"(Option::<T>::unwrap$|Option::<T>::expect$|Result::<T, E>::unwrap$|Result::<T, E>::expect$|Result::<T, E>::unwrap_err$|Result::<T, E>::expect_err$"
    r"|core::panicking::|std::rt::begin_panic|std::rt::panic_fmt|panic_any|::unwrap_unchecked$|::index$|::index_mut$|slice_index|::split_at$|::split_at_mut$"
    r"|Vec::<T(, A)?>::(remove|swap_remove|insert|drain|split_off)$|::copy_from_slice$|::clone_from_slice$|::chunks(_exact)?(_mut)?$|::windows$|::step_by$|::rchunks"
    r"|RefCell::<T>::borrow(_mut)?$|::from_utf8_unchecked$|process::(abort|exit)$|::swap$|String::(remove|insert|insert_str|drain|split_off|replace_range)$"
    r"|char::from_u32_unchecked|char::from_digit$|::to_digit$|::pow$|::abs$|::div_euclid$|::rem_euclid$|::next_power_of_two$|::ilog|::isqrt|Duration::new$|Duration::from_secs_f"
    r"|<std::time::(SystemTime|Instant) as std::ops::(Add|Sub)|Layout::|::assume_init|::get_unchecked|ptr::|mem::(transmute|zeroed|uninitialized)|thread::|sync::)"
)
ARITH_TRAIT = re.compile(r"std::ops::(Add|Sub|Mul|Div|Rem|Neg|Shl|Shr|AddAssign|SubAssign|MulAssign|DivAssign|RemAssign|ShlAssign|ShrAssign)::")
INTS = {"u8", "u16", "u32", "u64", "u128", "usize", "i8", "i16", "i32", "i64", "i128", "isize"}
UB_CHECKS = {"MisalignedPointerDereference", "NullPointerDereference", "InvalidEnumConstruction"}


def int_like(t):
    return t.lstrip("&").replace("mut ", "").strip() in INTS


def _norm_generic(t):
    prev = None
    while prev != t:
        prev = t
        t = re.sub(r"<[^<>]*>", "\x00", t)
    return t.replace("\x00", "<>")


class ApiClass:
    def __init__(self):
        import json, os

        d = json.load(open(os.path.join(F.VERIF, "spec", "total_api.json")))
        self.panic = [re.compile(x) for x in d["may_panic"]]
        self.total = [re.compile(x) for x in d["total"]]

    def classify(self, callee, resolved):
        for t in (resolved, callee):
            if not t:
                continue
            n = _norm_generic(t)
            if any(r.search(n) or r.search(t) for r in self.panic):
                return "may-panic"
        for t in (resolved, callee):
            if not t:
                continue
            n = _norm_generic(t)
            if any(r.search(n) or r.search(t) for r in self.total):
                return "total"
        return "unclassified"


API = None


class Census:
    def __init__(self, m, facts):
        global API
        if API is None:
            API = ApiClass()
        local_crate = m.data.get("crate")
        from .. import scope as _scope

        self.scope = _scope.in_scope(m)
        self.sites = []  # dict(fn=e1key|None, mir=path, kind, what, macros, line, ord)
        counts = {}
        for p in sorted(m.bodies):
            b = m.bodies[p]
            fn = mir.e1_key(p, facts)
            for c in sorted(b["calls"], key=lambda c: c["line"]):
                t = c["resolved"] or c["callee"]
                kind = None
                if (ARITH_TRAIT.search(t) or ARITH_TRAIT.search(c["callee"])) and any(int_like(a) for a in c["argtys"]):
                    kind = "arith-call"
                    t = c["callee"]
                elif c["crate"] and c["crate"] != local_crate and not (t in m.bodies):
                    cls = API.classify(c["callee"], c["resolved"])
                    if cls == "may-panic":
                        kind = "call"
                    elif cls == "unclassified" and fn is not None:
                        kind = "unclassified"
                elif PANIC_API.search(t) or PANIC_API.search(c["callee"]):
                    kind = "call"
                if kind:
                    what = re.sub(r"std::(option|result)::", "", t)
                    self._add(counts, fn, p, kind, what, c)
            for a in sorted(b["asserts"], key=lambda a: a["line"]):
                self._add(counts, fn, p, "assert", a["kind"], a, operands=a["operands"])

    def _add(self, counts, fn, p, kind, what, node, operands=None):
        key = (fn or p, kind, what)
        counts[key] = counts.get(key, 0) + 1
        self.sites.append(dict(fn=fn, mir=p, kind=kind, what=what, macros=node["macros"], line=node["line"], file=node["file"], ord=counts[key], operands=operands, in_scope=p in self.scope))


FINITE_SOURCES = re.compile(
    r"^(std|core|alloc)::(vec::(Vec|IntoIter|Drain)|slice::(Iter|IterMut|Chunks|Windows)|str::(Chars|CharIndices|Bytes|Lines|SplitWhitespace|Split|SplitN)|"
    r"collections::(hash|btree)_(map|set)::\w+|collections::\w+::\w+|collections::(HashMap|HashSet|BTreeMap|BTreeSet|VecDeque|BinaryHeap|LinkedList)|option::(IntoIter|Iter|IterMut|Option)|ops::(Range|RangeInclusive)|array::IntoIter|string::String)$"
)
FINITE_ADAPTORS = {"Enumerate", "Map", "Rev", "Filter", "FilterMap", "Copied", "Cloned", "Peekable", "Skip", "Take", "StepBy", "Inspect", "TakeWhile", "SkipWhile", "MapWhile", "Fuse"}


def _split_head(ty):
    ty = ty.strip()
    while ty.startswith("&"):
        ty = re.sub(r"^&\s*('\{?\w+\}?\s*)?(mut\s+)?", "", ty)
    if "<" in ty:
        i = ty.index("<")
        return ty[:i], F.split_generics(ty[i + 1 : -1])
    return ty, []


def finite_iterable(ty):
    head, args = _split_head(ty)
    if head.startswith("["):
        return True  # slice or array
    m = re.match(r"^(std|core)::iter::(\w+)$", head)
    if m:
        if m.group(2) in FINITE_ADAPTORS:
            return bool(args) and finite_iterable(args[0])
        if m.group(2) == "Zip":
            return len(args) == 2 and (finite_iterable(args[0]) or finite_iterable(args[1]))
        if m.group(2) == "Chain":
            return len(args) == 2 and finite_iterable(args[0]) and finite_iterable(args[1])
        return False
    return bool(FINITE_SOURCES.match(head))


def short_ty(ty):
    return re.sub(r"(std|core|alloc)::(\w+::)*", "", ty)[:80]


def run(c, facts, tier):
    b = peg.Builder(facts)
    g = peg.Grammar(b)
    an = Anchors(facts, b)
    c.trusted = [
        "rustc nightly MIR (-Zmir-opt-level=0, overflow checks on) as exported by engines/mir-facts: every call terminator with its resolved callee, every Assert terminator",
        "std / winnow / bitflags internals other than the enumerated assertion sites do not panic on the values this crate passes (allocation failure and stack exhaustion excluded)",
        "E1 combinator IR for the premises (character sets, repetition bounds)",
    ]
    c.assumptions = ["system clock is not before 1970 (SystemTime::duration_since(UNIX_EPOCH).unwrap())", "input ≤ 4 KiB and nesting ≤ 64 (property bound): bounds the u32 identifier counter and the recursion depth"]
    c.explanation = (
        "Complete census (from the type-checked MIR of every body of the crate, closures included) of calls into panicking std APIs, explicit panics (unreachable!/todo!/…), overflow/bounds/division Assert "
        "terminators and integer arithmetic through operator traits. Every site must be discharged by one of: set-cover, finite-domain, nonempty, const-arg, radix-bound, ensure-get, not-partial, never-built, variant-cover, arith, "
        "len-arm, clock, ub-check, dependency-generated — each with a premise checked on E1 facts. Termination: no loops in crate code, winnow repetitions make progress (non-nullable bodies), recursion cycles are "
        "enumerated from the call graph and each is structural or guarded by token consumption."
    )
    c.decided = ["absence of panics in crate code for every input, modulo the trusted base", "absence of non-termination (progress + structural recursion)", "error rendering cannot fail (thiserror templates, no panicking call)"]
    c.not_decided = ["stack exhaustion beyond the nesting bound", "allocation failure", "panics inside std/winnow/bitflags other than the enumerated assertion sites"]
    m_on = mir.load(True)
    configs = [("debug-assertions=on", m_on)]
    if tier == "thorough":
        configs.append(("debug-assertions=off", mir.load(False)))
    c.analysed["mir_bodies"] = len(m_on.bodies)
    c.analysed["call_edges"] = sum(len(x["calls"]) for x in m_on.bodies.values())
    D = Discharger(c, facts, b, g, an, m_on)
    seen = set()
    total = 0
    for cname, m in configs:
        cs = Census(m, facts)
        for s in cs.sites:
            inst = "%s%s#%d" % (s["what"], "" if s["kind"] != "assert" else "", s["ord"])
            site = s["fn"] or s["mir"]
            key = (site, inst)
            if key in seen:
                continue
            seen.add(key)
            total += 1
            ok, form, det = D.discharge(s)
            c.ob("C03." + form, site, inst, ok, "%s [%s, %s:%s]" % (det, cname, s["file"].split("/src/")[-1], s["line"]), witness=D.witness(s, form) if ok is not True else None, nontrivial=form not in ("ub-check", "dependency-generated", "derive-generated", "out-of-scope"))
    c.analysed["panic_capable_sites"] = total
    c.floor("panic-capable sites in the census", total, 20)
    # ------------------------------------------------------------ progress / termination
    progress(c, facts, b, g, m_on)
    linear_time(c, facts, b, g, an)
    termination(c, facts, m_on)
    # error rendering: Display impls come from thiserror templates; no hand-written Display for the error types
    for en in ("ParserError", "SyntaxError", "GrammarError", "CompileError"):
        e = facts.enums.get(en)
        if e is None:
            c.ob("C03.render", en, "error type present", None, "enum %s not found" % en)
            continue
        derives = facts.derives(e)
        tmpl_ok = all(any(a.startswith("error(") for a in v["attrs"]) for v in e["variants"])
        manual = [i for _, _, i in facts.impls if norm_ty(i["self_ty"]) == en and i["trait"] and norm_ty(i["trait"]).split("::")[-1] == "Display"]
        if manual and not tmpl_ok:
            # a hand-written Display: its panic-capable sites are in the census above (rendering impls are roots of the scope);
            # what is left is that it fails only when the formatter does — it never makes up an `Err(fmt::Error)` of its own
            # (`to_string()` panics on one).  Examined in the impl and in every function that takes a formatter.
            fmt_fns = [f_ for f_ in facts.nontest_fns() if (f_.impl is not None and f_.impl.get("trait") and norm_ty(f_.impl["trait"]).split("::")[-1] == "Display" and norm_ty(f_.impl["self_ty"]) == en) or any("Formatter" in (t_ or "") for _, t_ in f_.params)]
            own_err = [f_.key for f_ in fmt_fns if find_all(f_.body, lambda n: (n.get("k") == "call" and n["f"].get("k") == "path" and n["f"]["segs"][-1] == "Err") or (n.get("k") in ("path", "struct") and n.get("segs") and n["segs"][-1] == "Error" and len(n["segs"]) >= 2 and n["segs"][-2] == "fmt"))]
            c.ob("C03.render", en, "hand-written Display fails only when the formatter fails", "Error" in derives and len(manual) == 1 and not own_err, "derives %s; hand-written Display impls: %d; functions writing to a formatter that construct an error of their own: %s" % (derives, len(manual), own_err))
            continue
        c.ob("C03.render", en, "Display is derived from #[error] templates", "Error" in derives and tmpl_ok and not manual, "derives %s; every variant has a template: %s; hand-written Display impls: %d" % (derives, tmpl_ok, len(manual)), nontrivial=False)
    # every hand-written `fmt` of the crate (Display or Debug of the tree types): `format!`/`to_string()` panic on an error a
    # formatting impl makes up; it may only hand on what the formatter returned
    fmts = [f_ for f_ in facts.nontest_fns() if f_.name == "fmt" and f_.impl is not None and f_.impl.get("trait") and norm_ty(f_.impl["trait"]).split("::")[-1] in ("Display", "Debug", "LowerHex", "UpperHex", "Octal", "Binary")]
    made_up = [f_.key for f_ in fmts if find_all(f_.body, lambda n: (n.get("k") == "call" and n["f"].get("k") == "path" and n["f"]["segs"][-1] == "Err") or (n.get("k") in ("path", "struct") and n.get("segs") and n["segs"][-1] == "Error" and len(n["segs"]) >= 2 and n["segs"][-2] == "fmt"))]
    c.ob("C03.render", "crate", "hand-written formatting impls fail only when the formatter fails", not made_up, "%d hand-written fmt impl(s): %s; constructing an error of their own: %s" % (len(fmts), [f_.key for f_ in fmts], made_up or "none"), nontrivial=False)
    # positive control: an undischarged fixture site
    ok, form, det = D.discharge(dict(fn="fixture::f", mir="fixture::f", kind="call", what="Option::<T>::unwrap", macros=[], line=0, file="", ord=1, operands=None))
    c.control("C03.census", ok is not True, "a new unwrap in an unknown function is reported as undischarged (%s)" % form)


class Discharger:
    def __init__(self, c, facts, b, g, an, m):
        self.c, self.f, self.b, self.g, self.an, self.m = c, facts, b, g, an, m
        self.scope = b.scope(("find_parser",))
        self._mgr_tables = {}

    def witness(self, s, form):
        fn = s["fn"] or ""
        if "Permission as Parseable" in fn and "unwrap" in s["what"]:
            return "-perm 10000 / -perm 77777777777777"
        if "FormatSpecial" in fn:
            return "-printf '\\7777777'"
        if fn == "RunOptions::update":
            return "-maxdepth 3"
        if fn == "Size::byte_size":
            return "-size 18014398509481984k"
        if "PositionalOption" in fn:
            return "nope (release build)"
        return None

    # ------------------------------------------------------------ dispatcher
    def discharge(self, s):
        fn, what, kind = s["fn"], s["what"], s["kind"]
        macros = s["macros"]
        if s.get("in_scope") is False:
            return True, "out-of-scope", "%s is reachable from none of parse, compile, scheme, io_map, the tree helpers or a rendering/conversion impl (vlib/scope.py): the property does not speak of it" % (fn or s["mir"])
        if kind == "assert" and what in UB_CHECKS:
            return True, "ub-check", "compiler-inserted %s check (debug builds) in %s expansion on a freshly created value" % (what, macros[-1:] or "a raw-pointer write")
        if any(mc.startswith("bitflags!") or "bitflags" in mc for mc in macros) and (fn is None):
            return True, "dependency-generated", "inside code generated by the bitflags! macro of the pinned dependency (trusted base)"
        if fn is None:
            if " as std::" in s["mir"] or "as std::" in s["mir"]:
                return True, "derive-generated", "derived trait implementation"
            return None, "census", "site in a body that could not be mapped to a source function: %s" % s["mir"]
        if fn not in self.f.fns:
            return None, "census", "panic-capable site `%s` in a function the rules do not know" % what
        f = self.f.fns[fn]
        if "core::panicking::" in what or "begin_panic" in what or "panic_fmt" in what:
            mac = next((mc.rstrip("!") for mc in reversed(macros) if mc.rstrip("!") in ("unreachable", "todo", "unimplemented", "panic", "assert", "assert_eq", "assert_ne", "debug_assert", "debug_assert_eq")), "panic")
            return self.explicit_panic(s, f, mac)
        if what.endswith("::unwrap") or what.endswith("::expect") or what.endswith("::unwrap_err"):
            return self.unwrap_site(s, f)
        if kind == "assert" and what.startswith("Overflow"):
            return self.overflow(s, f)
        if kind == "arith-call":
            return self.arith_call(s, f)
        if kind == "unclassified":
            return None, "census", "call of `%s`, an external API that spec/total_api.json classifies neither as total nor as may-panic: triage it (fail closed)" % what
        if what.endswith("::with_capacity") or what.endswith("::reserve") or what.endswith("::reserve_exact"):
            name = what.split("::")[-1]
            calls = find_all(f.body, lambda n: (n.get("k") == "call" and n["f"]["k"] == "path" and n["f"]["segs"][-1] == name) or (n.get("k") == "mcall" and n["m"] == name))
            def bounded(a):
                a = rx.peel(a)
                if a["k"] == "mcall" and a["m"] in ("len", "count", "capacity") and not a["args"]:
                    return True
                if a["k"] == "binary" and a["op"] in ("+", "*"):
                    # a small multiple of / offset to a length (`2 * xs.len()`, `s.len() + 2`)
                    l_, r_ = rx.peel(a["lhs"]), rx.peel(a["rhs"])
                    small = lambda x: rx.int_const(x) is not None and 0 <= rx.int_const(x) < 2**15
                    return (small(l_) and bounded(r_)) or (bounded(l_) and small(r_)) or (bounded(l_) and bounded(r_) and a["op"] == "+")
                v = rx.int_const(a)
                return v is not None and 0 <= v < 2**31
            ok = bool(calls) and all(cl["args"] and bounded(cl["args"][-1]) for cl in calls)
            return (True if ok else None), "const-arg", "%s panics only on capacity overflow; every requested capacity here is the length of an existing collection or a small literal: %s" % (name, [src(cl["args"][-1]) for cl in calls if cl["args"]])
        if what.endswith("::to_digit") or what.endswith("::is_digit"):
            name = what.split("::")[-1]
            calls = find_all(f.body, lambda n: (n.get("k") == "mcall" and n["m"] == name) or (n.get("k") == "call" and n["f"]["k"] == "path" and n["f"]["segs"][-1] == name))
            radices = [rx.int_const(cl["args"][-1]) if cl["args"] else None for cl in calls]
            ok = bool(calls) and all(r is not None and 2 <= r <= 36 for r in radices)
            return ok, "const-arg", "%s panics only for a radix above 36; radices used here: %s" % (name, radices)
        if what.endswith("::from_str_radix"):
            calls = find_all(f.body, lambda n: n.get("k") == "call" and n["f"]["k"] == "path" and n["f"]["segs"][-1] == "from_str_radix")
            radices = [rx.int_const(cl["args"][1]) if len(cl["args"]) == 2 else None for cl in calls]
            ok = bool(calls) and all(r is not None and 2 <= r <= 36 for r in radices)
            return ok, "const-arg", "from_str_radix panics only for a radix outside 2..=36; radices used here: %s" % radices
        if kind == "assert" and what == "BoundsCheck":
            bt = self.bool_index_table(f)
            if bt is not None:
                return bt[0], "bounds", bt[1]
            return None, "bounds", "indexing with a run-time index in %s" % fn
        if kind == "assert":
            return None, "assert", "%s in %s" % (what, fn)
        if what.endswith("::assert") and "winnow" in what:
            # winnow's assertion error (a panic in debug builds) made by the crate itself: `OPTION.ok_or_else(|| ErrMode::assert(..))`
            # is reached exactly when OPTION is None — the obligation of `OPTION.unwrap()`
            sites = find_all(f.body, lambda n: n.get("k") == "mcall" and n["m"] in ("ok_or_else", "unwrap_or_else") and len(n["args"]) == 1 and n["args"][0].get("k") == "closure" and find_all(n["args"][0], lambda x: x.get("k") == "call" and x["f"].get("k") == "path" and x["f"]["segs"][-1] == "assert"))
            alls = find_all(f.body, lambda x: x.get("k") == "call" and x["f"].get("k") == "path" and x["f"]["segs"][-1] == "assert" and len(x["f"]["segs"]) >= 2)
            if sites and len(alls) == len(sites):
                res = [self.unwrap_node(f, {"k": "mcall", "l": st_.get("l"), "m": "unwrap", "recv": st_["recv"], "targs": [], "args": []}) for st_ in sites]
                bad = [r_ for r_ in res if r_[0] is not True]
                return bad[0] if bad else res[0]
            return None, "census", "winnow's assertion error (panics in debug builds) is constructed in %s outside the recognised `option.ok_or_else(|| ErrMode::assert(..))` form" % fn
        if re.search(r"^<(std::vec::Vec|\[)", what) and "as std::ops::Index<" in what and what.endswith("::index"):
            r_ = self.index_under_length_test(f)
            if r_ is not None:
                return r_
        if re.search(r"(Hash|BTree)Map<.*as std::ops::Index<", what) and what.endswith("::index"):
            # `map[&k]` is `map.get(&k).unwrap()`: same obligation as the ensure-get idiom, for every indexing of a map field
            idxs = find_all(f.body, lambda n: n.get("k") == "index" and n["e"].get("k") == "field" and rx.is_var(n["e"]["e"], "self"))
            if idxs:
                res = [self.ensure_get(f, ix, {"k": "mcall", "l": ix.get("l"), "m": "get", "recv": ix["e"], "targs": [], "args": [ix["idx"]]}) for ix in idxs]
                bad = [r_ for r_ in res if r_[0] is not True]
                return (bad[0] if bad else res[0])
        return None, "census", "call of panicking API %s" % what

    # ------------------------------------------------------------ explicit panics
    def assert_holds(self, f, cond):
        """(proved, why) for a condition over values bound by the parser steps of `f`: conjunctions of `!X.is_empty()`,
        `X.len() >= n`, `X.len() > n`, `X.len() != 0`, `X.len() <= n`, `X.len() < n` where X is the text / list a repetition with the
        stated bounds produced (take_while(m..=M), repeat(m..), separated(m..), repeat_till(m..))."""
        cond = rx.peel(cond)
        if cond.get("k") == "binary" and cond["op"] == "&&":
            a, b = self.assert_holds(f, cond["lhs"]), self.assert_holds(f, cond["rhs"])
            return (a[0] and b[0]), "%s; %s" % (a[1], b[1])
        try:
            bnd = self.g.bindings(self.b.fn_ir(f.key))
        except F.AnchorMissing:
            bnd = {}

        def bounds(name):
            p = bnd.get(name)
            while p is not None and p["t"] in ("ctx", "cut"):
                p = p["p"]
            if p is not None and p["t"] in ("set", "rep", "sep", "reptill") and "min" in p:
                return p["min"], p.get("max")
            return None

        if cond.get("k") == "unary" and cond["op"] == "!":
            inner = rx.peel(cond["e"])
            if inner.get("k") == "mcall" and inner["m"] == "is_empty" and not inner["args"]:
                nm = rx.var_name(rx.peel(inner["recv"]))
                bd = bounds(nm) if nm else None
                if bd is not None:
                    return bd[0] >= 1, "`%s` is the result of a repetition with lower bound %d" % (nm, bd[0])
            return False, "`%s` not understood" % src(cond)[:50]
        if cond.get("k") == "binary" and cond["op"] in (">=", ">", "!=", "<=", "<"):
            l_, r_ = rx.peel(cond["lhs"]), rx.peel(cond["rhs"])
            n_ = rx.int_const(r_)
            if l_.get("k") == "mcall" and l_["m"] == "len" and not l_["args"] and n_ is not None:
                nm = rx.var_name(rx.peel(l_["recv"]))
                bd = bounds(nm) if nm else None
                if bd is not None:
                    lo, hi = bd
                    ok = {">=": lo >= n_, ">": lo > n_, "!=": (lo > n_) or (hi is not None and hi < n_), "<=": hi is not None and hi <= n_, "<": hi is not None and hi < n_}[cond["op"]]
                    return ok, "`%s` has between %d and %s elements" % (nm, lo, hi if hi is not None else "∞")
        return False, "`%s` not understood" % src(cond)[:50]

    def explicit_panic(self, s, f, mac):
        fn = f.key
        # which match arm holds the macro?  (the ord-th occurrence in source order)
        holders = []
        for mt in find_all(f.body, lambda n: n.get("k") == "match"):
            for arm in mt["arms"]:
                if find_all(arm["body"], lambda n: n.get("k") == "macro" and n["name"] == mac) and not find_all(arm["body"], lambda n: n.get("k") == "match"):
                    holders.append((mt, arm))
        if not holders and mac in ("assert", "debug_assert"):
            # an assertion that restates what the parser steps above it have established (a run of at least one character is
            # not empty): it cannot fire.  Every assertion of the function must be proved.
            nodes = find_all(f.body, lambda n: n.get("k") == "macro" and n["name"] == mac) + [nd for nd in (f.node.get("_asserts") or []) if nd.get("name") == mac]
            if nodes and all(nd.get("args") for nd in nodes):
                res = [self.assert_holds(f, nd["args"][0]) for nd in nodes]
                if all(r_[0] for r_ in res):
                    return True, "assert-proved", "%s!(%s): %s" % (mac, "; ".join(src(nd["args"][0])[:60] for nd in nodes), "; ".join(r_[1] for r_ in res))
                return None, "census", "%s!(..) in %s: condition not established by the parser steps (%s)" % (mac, fn, "; ".join(r_[1] for r_ in res if not r_[0]))
        if not holders:
            return None, "census", "%s!() outside a match arm in %s" % (mac, fn)
        mt, arm = holders[min(s["ord"], len(holders)) - 1]
        if f.key == c13.update_fn(self.f).key and mac == "unreachable":
            # whichever way the refusing arm is written (catch-all, or the refused variants spelled out)
            return self.variant_cover_update(f)
        if mac in ("todo", "unimplemented"):
            return False, "variant-cover", "%s!() is reachable: arm `%s` of %s" % (mac, psrc(arm["pat"]), fn)
        # -- set-cover: closure `|c| match c { 'a' => .., _ => unreachable!() }` applied to one_of/take_while set
        if rx.is_catchall(arm["pat"]):
            lits = [p["v"] for a2 in mt["arms"] for p in rx.pat_cases(a2["pat"]) if p["k"] == "lit"]
            toks = [rx.pat_variant(p)[0] for a2 in mt["arms"] for p in rx.pat_cases(a2["pat"]) if rx.pat_variant(p)]
            if lits and all(isinstance(x, str) and len(x) == 1 for x in lits):
                return self.set_cover_chars(f, mt, lits)
            if toks and all(t.startswith("Token::") for t in toks):
                return self.set_cover_tokens(f, mt, toks)
            if toks and all(t.split("::")[0] in ("GlobalOption", "ast::GlobalOption") or t.startswith("GlobalOption") for t in [x.replace("ast::", "") for x in toks]):
                return self.variant_cover_update(f)
            others = [a2 for a2 in mt["arms"] if a2 is not arm]
            if len(others) == 1 and others[0]["guard"] is None:
                q = others[0]["pat"]
                while q["k"] in ("ref", "typed", "paren"):
                    q = q["pat"]
                if q["k"] == "tstruct" and q["segs"][-1] in ("Some", "Ok") and len(q["elems"]) == 1:
                    # `match X { Some(v) => .., _ => panic }` (also the reading of `let Some(v) = X else { panic }`) is X.unwrap()
                    return self.unwrap_node(f, {"k": "mcall", "l": mt.get("l"), "m": "unwrap", "recv": mt["scrut"], "targs": [], "args": []})
            return None, "variant-cover", "panicking catch-all in %s not recognised" % fn
        pv = rx.pat_variant(arm["pat"])
        if pv:
            name = pv[0].replace("ast::", "")
            if name.endswith("Operator::Precedence") or name == "Ope::Precedence":
                return self.never_built_precedence()
            if name.endswith("Expression::Global") or name == "Exp::Global":
                return self.never_built_global()
            if name.endswith("ErrMode::Incomplete"):
                # the same premise as for `into_inner().unwrap()`: Incomplete needs a Partial<_> stream
                partial = [k for k, fn2 in self.f.fns.items() if not fn2.test and find_all(fn2.node, lambda n: isinstance(n, dict) and n.get("k") == "path" and "Partial" in n.get("segs", []))]
                gen = [cl["generics"] for bd in self.m.bodies.values() for cl in bd["calls"] if "Partial<" in cl["generics"]]
                return (not partial and not gen), "not-partial", "the arm for ErrMode::Incomplete is reached only with a Partial<_> stream; uses of Partial in the crate: %d (syntax) / %d (resolved generic arguments)" % (len(partial), len(gen))
        return None, "never-built", "panicking arm `%s` in %s not recognised" % (psrc(arm["pat"]), fn)

    def set_cover_chars(self, f, mt, lits):
        """the scrutinee is the character produced by one_of(set) / an element of take_while(set) strings"""
        fn = f.key
        have = set(lits)
        # (a) the match is the body of a function value (closure or named fn) mapped over a parser: find that parser in any IR
        sets = []
        scr = rx.var_name(mt["scrut"])

        def visit(fbx):
            def w(n):
                if n["t"] == "map" and n["f"].get("k") == "closure" and find_all(n["f"], lambda x: x is mt):
                    inner = A.unwrap(n["p"])
                    cands = [inner] if inner["t"] == "set" else []
                    prm = rx.closure_params(n["f"])[0] if n["f"]["params"] else None
                    if prm is not None and prm["k"] == "tuple" and inner["t"] == "seq":
                        names = [rx.pat_bindings(e)[0] if rx.pat_bindings(e) else None for e in prm["elems"]]
                        kept = [A.unwrap(i["p"]) for i in inner["items"] if i["keep"]]
                        if scr in names and len(kept) == len(names):
                            cands = [kept[names.index(scr)]]
                    elif inner["t"] == "seq":
                        cands = [A.unwrap(i["p"]) for i in inner["items"]]
                    for x in cands:
                        if x["t"] == "set":
                            sets.append(x)
            self.g.walk(fbx, w, follow=False)

        for k2, f2 in self.f.fns.items():
            if f2.test or f2.module[:1] != ("find_parser",):
                continue
            try:
                visit(self.b.fn_ir(k2))
            except F.AnchorMissing:
                pass
        # (a') the scrutinee is bound by a parser step of this function (tuple or sequential form)
        try:
            bnd = self.g.bindings(self.b.fn_ir(fn))
        except F.AnchorMissing:
            bnd = {}
        if scr in bnd and bnd[scr]["t"] == "set":
            sets.append(bnd[scr])
        if sets:
            bad = [peg.cs_show(x["cs"]) for x in sets if not (x["cs"][0] == "in" and set(x["cs"][1]) <= have)]
            return (not bad), "set-cover", "scrutinee comes from character set %s; the non-panicking arms cover %s" % ([peg.cs_show(x["cs"]) for x in sets], sorted(have)) + ("" if not bad else " — NOT covered")
        # (b) a helper taking a char: every caller passes characters of strings parsed by a set ⊆ arms (Permission::value)
        if f.params and f.params[0][1] == "char":
            callers = []
            for k2, f2 in self.f.fns.items():
                if f2.test:
                    continue
                if f2 is not f and self.refers_to(f2, f):
                    callers.append(f2)
            ok_all, dets = bool(callers), []
            for f2 in callers:
                # f2 = from_symbolic_str(input).chars().map(value): follow one more level to the callers of f2
                srcs = self.char_sources(f2)
                if srcs is None:
                    ok_all = False
                    dets.append("%s: argument origin not recognised" % f2.key)
                else:
                    for where, cs in srcs:
                        cov = cs[0] == "in" and set(cs[1]) <= have
                        ok_all = ok_all and cov
                        dets.append("%s passes characters of %s" % (where, peg.cs_show(cs)))
            if not ok_all and any("not recognised" in d_ for d_ in dets):
                ok2, det2 = self.panic_free_by_evaluation(f)
                if ok2 is not None:
                    return ok2, "set-cover", "arms cover %s; %s" % (sorted(have), det2)
            return ok_all, "set-cover", "arms cover %s; callers: %s" % (sorted(have), "; ".join(dets))
        ok2, det2 = self.panic_free_by_evaluation(f)
        if ok2 is not None:
            return ok2, "set-cover", "arms cover %s; %s" % (sorted(have), det2)
        return None, "set-cover", "origin of the matched character in %s not recognised (%s)" % (fn, det2)

    def index_under_length_test(self, f):
        """Every `NAME[k]` (k a literal) of the function stands where a test on `NAME.len()` has established more than k
        elements — the then-branch of `if NAME.len() == n` / `>= n` / `> m`, or the arm `n =>` of `match NAME.len()` — and
        NAME is not shortened in between.  -> (ok, form, detail) or None when there is an indexing of another kind."""
        idxs = find_all(f.body, lambda n: n.get("k") == "index")
        if not idxs:
            return None
        SHORTEN = {"pop", "clear", "remove", "truncate", "drain", "swap_remove", "retain", "split_off", "take"}
        dets = []
        for ix in idxs:
            name = rx.var_name(rx.peel(ix["e"]))
            k = rx.int_const(ix["idx"])
            if name is None or k is None or k < 0:
                return None
            ok_here = False
            for br, least in self._length_guarded_regions(f.body, name):
                if least > k and find_all(br, lambda n: n is ix) and not find_all(br, lambda n: n.get("k") == "mcall" and n["m"] in SHORTEN and rx.var_name(rx.peel(n["recv"])) == name):
                    ok_here = True
                    dets.append("%s[%d] where %s.len() ≥ %d" % (name, k, name, least))
                    break
            if not ok_here:
                # NAME is what a repetition with a lower bound above k collected (`repeat_till(1.., ..)`), and is not shortened
                try:
                    bnd = self.g.bindings(self.b.fn_ir(f.key))
                except F.AnchorMissing:
                    bnd = {}
                p = bnd.get(name)
                while p is not None and p["t"] in ("map", "ctx", "cut"):
                    p = p["p"]
                if p is not None and p["t"] in ("reptill", "rep", "sep") and p["min"] > k and not find_all(f.body, lambda n: n.get("k") == "mcall" and n["m"] in SHORTEN and rx.var_name(rx.peel(n["recv"])) == name):
                    ok_here = True
                    dets.append("%s[%d] where %s is the result of %s with lower bound %d" % (name, k, name, p["t"], p["min"]))
            if not ok_here:
                return None
        return True, "len-arm", "every indexing stands under a length test or a repetition bound that covers it: %s" % "; ".join(dets)

    def _length_guarded_regions(self, body, name):
        """[(region, least length established there)] for the tests on `name.len()` in `body`"""
        out = []

        def is_len(e_):
            e_ = rx.peel(e_)
            return e_.get("k") == "mcall" and e_["m"] == "len" and not e_["args"] and rx.var_name(rx.peel(e_["recv"])) == name

        for n in find_all(body, lambda n: n.get("k") in ("if", "match")):
            if n["k"] == "if" and n["cond"].get("k") == "binary":
                c_ = n["cond"]
                l_, r_, op = c_["lhs"], c_["rhs"], c_["op"]
                if is_len(r_) and rx.int_const(l_) is not None:
                    l_, r_ = r_, l_
                    op = {"<": ">", ">": "<", "<=": ">=", ">=": "<="}.get(op, op)
                v = rx.int_const(r_)
                if is_len(l_) and v is not None:
                    if op == "==":
                        out.append((n["then"], v))
                    elif op == ">=":
                        out.append((n["then"], v))
                    elif op == ">":
                        out.append((n["then"], v + 1))
                    elif op == "<" and n.get("else") is not None:
                        out.append((n["else"], v))
                    elif op == "<=" and n.get("else") is not None:
                        out.append((n["else"], v + 1))
                    elif op == "!=" and n.get("else") is not None:
                        out.append((n["else"], v))
            if n["k"] == "match" and is_len(n["scrut"]):
                for arm in n["arms"]:
                    lits = [p["v"] for p in rx.pat_cases(arm["pat"]) if p["k"] == "lit"]
                    if lits and len(lits) == len(rx.pat_cases(arm["pat"])) and all(isinstance(v, int) for v in lits):
                        out.append((arm["body"], min(lits)))
        return out

    def bool_index_table(self, f):
        """Every indexing in `f` is `TABLE[usize::from(b)]` / `TABLE[b as usize]` with b a boolean and that dimension of the
        constant TABLE at least two long.  -> (ok, detail) or None when the indexings are of another kind."""
        idxs = find_all(f.body, lambda n: n.get("k") == "index")
        if not idxs:
            return None
        ptys = {n_: t_ for n_, t_ in f.params if n_}

        def is_bool(x):
            x = rx.peel(x)
            if x.get("k") == "path" and len(x["segs"]) == 1:
                return ptys.get(x["segs"][0]) == "bool"
            if x.get("k") == "call" and x["f"].get("k") == "path":
                r = self.b._resolve_fn_path(x["f"], {"__module": f.module, "__tsubst": {}})
                g_ = self.f.fns.get(r[0]) if r else None
                return g_ is not None and norm_ty(g_.node.get("output") or "") == "bool"
            if x.get("k") == "binary" and x["op"] in ("==", "!=", "<", ">", "<=", ">=", "&&", "||"):
                return True
            if x.get("k") == "unary" and x["op"] == "!":
                return is_bool(x["e"])
            if x.get("k") == "mcall" and x["m"] in ("is_empty", "is_some", "is_none", "contains", "starts_with", "ends_with"):
                return True
            return False

        def dims(e_):
            """lengths of the nested constant array `e_` denotes, outermost first"""
            e_ = rx.peel(e_)
            if e_.get("k") == "index":
                d = dims(e_["e"])
                return d[1:] if d else None
            if e_.get("k") == "path":
                for k_, it in self.f.consts.items():
                    if k_.split("::")[-1] == e_["segs"][-1]:
                        out, cur = [], it["e"]
                        while isinstance(cur, dict) and rx.peel(cur).get("k") == "array":
                            cur = rx.peel(cur)
                            out.append(len(cur["elems"]))
                            if not cur["elems"]:
                                break
                            cur = cur["elems"][0]
                        return out
            return None

        for ix in idxs:
            i0 = rx.peel(ix["idx"])
            arg = None
            if i0.get("k") == "call" and i0["f"].get("k") == "path" and i0["f"]["segs"][-2:] in (["usize", "from"],) and len(i0["args"]) == 1:
                arg = i0["args"][0]
            elif i0.get("k") == "cast" and norm_ty(i0["ty"]) == "usize":
                arg = i0["e"]
            d = dims(ix["e"])
            if arg is None or not is_bool(arg) or not d or d[0] < 2:
                return None
        return True, "every index in %s is a boolean converted to 0/1 into a constant table whose indexed dimension has at least two entries" % f.key

    def finite_domain_free(self, f):
        """A method whose only input is `self` of an enum with field-less variants has finitely many inputs: it is
        evaluated on each of them (vlib/probe.py).  -> (ok, detail) or None when the function is not of that kind."""
        from .. import probe as P

        if f.impl is None or f.node.get("self") is None or [n_ for n_, _ in f.params if n_ != "self"]:
            return None
        ty = norm_ty(f.impl["self_ty"])
        en = self.f.enums.get(ty)
        if en is None or any(v["fields"] for v in en["variants"]):
            return None
        for v in en["variants"]:
            try:
                P.Probe(self.f, ty, f.module).invoke(f, ("enum", "%s::%s" % (ty, v["name"]), []), [])
            except P.Panic as ex:
                return False, "%s panics on %s::%s: %s" % (f.key, ty, v["name"], ex)
            except P.NoEval as ex:
                return None
        return True, "%s takes only `self`, one of the %d field-less variants of %s: evaluated on every one of them, none panics" % (f.key, len(en["variants"]), ty)

    def panic_free_by_evaluation(self, f):
        """A panicking construct in helper `f` that the syntactic forms do not explain: decide by evaluation.

        Every use of `f` must be through a function value mapped over a parser (`P.map(F)`, F reaching f).  Then either the
        texts P can match are few enough to evaluate F on every one of them, or F is evaluated on a text of unknown
        characters with `f` left uninterpreted — showing that f is only ever applied to characters of the text — and f is
        evaluated on every character P's set allows.  -> (ok, detail) / (None, why)"""
        from .. import probe as P, irval

        # functions through which f is reached
        reach = {f.key}
        changed = True
        fns = [x for x in self.f.fns.values() if not x.test]
        while changed:
            changed = False
            for g_ in fns:
                if g_.key in reach or self.b._input_name(g_) is not None:
                    continue  # parsers use the helper through the function values they map over their text (below)
                if any(self.refers_to(g_, self.f.fns[k_]) for k_ in list(reach)):
                    reach.add(g_.key)
                    changed = True
        # use contexts: map nodes whose function expression mentions a function of `reach`
        contexts = []
        covered = set()
        for k2, f2 in self.f.fns.items():
            if f2.test or f2.module[:1] != ("find_parser",):
                continue
            try:
                fb = self.b.fn_ir(k2)
            except F.AnchorMissing:
                continue
            def w(n, f2=f2):
                if n["t"] in ("map", "trymap"):
                    fe = n["f"]
                    names = {x["segs"][-1] for x in find_all(fe, lambda x: x.get("k") == "path")}
                    hit = [k_ for k_ in reach if self.f.fns[k_].name in names or fe.get("from_fn") == k_]
                    if hit:
                        contexts.append((f2, n))
                        covered.update(hit)
            self.g.walk(fb, w, follow=False)
        contexts_seen = []
        # any other use from a parser function (a plain call between two parsing steps) is not explained here
        inside = set()
        for _, n in contexts:
            for x in find_all(n["f"], lambda x: x.get("k") == "path"):
                inside.add(id(x))
        for f2c, n in contexts:
            fk = n["f"].get("from_fn")
            if fk:
                # `.map(helper)`: the path that names the helper is the mapped function itself
                for mc in find_all(f2c.body, lambda x: x.get("k") == "mcall" and x["m"] in ("map", "try_map") and len(x["args"]) == 1):
                    a0 = peg.strip_refs(mc["args"][0])
                    if a0.get("k") == "path" and a0["segs"][-1] == self.f.fns[fk].name:
                        inside.add(id(a0))
        imperative = []
        for f2 in fns:
            if self.b._input_name(f2) is None or f2.key in reach:
                continue
            for k_ in reach:
                tg = self.f.fns[k_]
                for x in find_all(f2.body, lambda x: x.get("k") == "path" and x["segs"][-1] == tg.name, skip_pats=True):
                    if id(x) not in inside and self.refers_to(f2, tg) and f2 not in imperative:
                        imperative.append(f2)
        # parser functions written in statements (steps, then ordinary code using the helper): the whole function is
        # evaluated with unknown texts, every branch of its alternations in turn
        for f2 in imperative:
            if not (f.params and f.params[0][1] == "char" and len(f.params) == 1):
                return None, "%s uses %s outside a mapped function" % (f2.key, f.key)
            picks, tried, sets = [{}], 0, {}
            while picks and tried < 32:
                pick = picks.pop(0)
                tried += 1
                ctx = irval.SymCtx(self.f, self.b, f2.module, pick)
                # every function of one character stays uninterpreted (each is examined at its own panic site)
                ctx.probe.opaque_calls = {g_.key for g_ in fns if [t_ for n_, t_ in g_.params if n_ != "self"] == ["char"]} | {f.key}
                try:
                    irval.run_parser_fn(f2, ctx)
                except P.Panic as ex:
                    return False, "in %s: %s" % (f2.key, ex)
                except P.NoEval as ex:
                    return None, "%s not evaluable on unknown texts: %s" % (f2.key, ex)
                for a_ in ctx.alts:
                    if id(a_) not in pick and len(picks) < 32:
                        for i_ in range(1, len(a_["alts"])):
                            nxt = dict(pick)
                            nxt[id(a_)] = i_
                            picks.append(nxt)
                        pick = dict(pick)
                        pick[id(a_)] = 0
                for k_, av in ctx.probe.opaque_log:
                    if k_ != f.key:
                        continue
                    if len(av) == 1 and id(av[0]) in ctx.origin:
                        nd = ctx.origin[id(av[0])]
                        sets[id(nd)] = nd
                    else:
                        return None, "%s is applied to something other than a character of the parsed text in %s" % (f.key, f2.key)
            if not sets:
                return None, "%s: no application of %s seen" % (f2.key, f.key)
            pr = P.Probe(self.f, None, f.module)
            for nd in sets.values():
                if nd["cs"][0] != "in":
                    return None, "%s passes characters of an unbounded set" % f2.key
                for ch in sorted(nd["cs"][1]):
                    try:
                        pr.invoke(f, None, [ch])
                    except P.Panic as ex:
                        return False, "%s passes characters of %s; %r reaches %s" % (f2.key, peg.cs_show(nd["cs"]), ch, ex)
                    except P.NoEval as ex:
                        return None, "%s not evaluable on %r: %s" % (f.key, ch, ex)
                details_pre = "%s applies it to each character of a run over %s, all of them evaluated" % (f2.key, peg.cs_show(nd["cs"]))
                contexts_seen.append(details_pre)
        # a function of `reach` that is used in any other way (plain call from non-mapped code, public API) is not explained
        for k_ in reach:
            g_ = self.f.fns[k_]
            if g_.node.get("vis") == "pub" and k_ != f.key:
                return None, "%s is public: callers outside the crate are not bounded" % k_
        details = list(contexts_seen)
        if not contexts and not details:
            return None, "no parser hands its text to %s" % f.key
        for f2, n in contexts:
            leaf = n["p"]
            while leaf["t"] in ("map", "ctx", "cut", "trymap", "verify"):
                leaf = leaf["p"]
            if leaf["t"] != "set" or leaf["cs"][0] != "in":
                return None, "the text handed over in %s is not a character run over a finite alphabet (%s)" % (f2.key, peg.show(leaf)[:40])
            alpha = sorted(leaf["cs"][1])
            nmax = leaf["max"]
            total = sum(len(alpha) ** i for i in range(max(leaf["min"], 0), (nmax or 0) + 1)) if nmax is not None else None

            class C(irval.Ctx):
                def leaf(self, node):
                    return self.text

            ctx = C(self.f, self.b, f2.module)
            if total is not None and total <= 20000:
                for ln in range(max(leaf["min"], 0), nmax + 1):
                    for tup in itertools.product(alpha, repeat=ln):
                        ctx.text = "".join(tup) if not leaf.get("one") else tup[0]
                        try:
                            irval.value(n, ctx)
                        except P.Panic as ex:
                            return False, "in %s the text %r reaches %s" % (f2.key, ctx.text, ex)
                        except P.NoEval as ex:
                            return None, "mapped function in %s not evaluable: %s" % (f2.key, ex)
                details.append("%s: all %d texts of %s{%d,%d} evaluated, none panics" % (f2.key, total, peg.cs_show(leaf["cs"]), leaf["min"], nmax))
                continue
            if not (f.params and f.params[0][1] == "char" and len(f.params) == 1):
                return None, "unbounded text in %s and %s is not a function of one character" % (f2.key, f.key)
            xs = [P.Opq("c%d" % i) for i in range(BN.N)]
            ctx.text = xs[0] if leaf.get("one") else list(xs)
            ctx.probe.opaque_calls = {f.key}
            try:
                irval.value(n, ctx)
            except P.Panic as ex:
                return False, "in %s: %s" % (f2.key, ex)
            except P.NoEval as ex:
                return None, "mapped function in %s not evaluable on a text of unknown characters: %s" % (f2.key, ex)
            log = ctx.probe.opaque_log
            if not log or not all(len(a_) == 1 and any(a_[0] is x for x in xs) for _, a_ in log):
                return None, "%s is applied to something other than the characters of the text in %s" % (f.key, f2.key)
            pr = P.Probe(self.f, None, f.module)
            for ch in alpha:
                try:
                    pr.invoke(f, None, [ch])
                except P.Panic as ex:
                    return False, "%s passes characters of %s; %r reaches %s" % (f2.key, peg.cs_show(leaf["cs"]), ch, ex)
                except P.NoEval as ex:
                    return None, "%s not evaluable on %r: %s" % (f.key, ch, ex)
            details.append("%s applies it to each character of a run over %s, all of them evaluated" % (f2.key, peg.cs_show(leaf["cs"])))
        return True, "; ".join(details)

    def refers_to(self, f2, target):
        """Does the body of f2 mention function `target` (as a call or as a function value)?"""
        env = {"__module": f2.module, "__tsubst": {}}
        for n in find_all(f2.body, lambda n: n.get("k") == "path" and n["segs"][-1] == target.name, skip_pats=True):
            if len(n["segs"]) >= 2 and "::".join(n["segs"][-2:]) == target.key:
                return True
            r = self.b._resolve_fn_path(n, env)
            if r and r[0] == target.key:
                return True
        return False

    def char_sources(self, helper):
        """For `fn from_symbolic_str(input) { input.chars().map(value).. }`: the character sets of every string passed by callers."""
        if not helper.params:
            return None
        pname = helper.params[0][0]
        if not find_all(helper.body, lambda n: n.get("k") == "mcall" and n["m"] == "chars"):
            return None
        out = []
        short = helper.name
        for k2, f2 in self.f.fns.items():
            if f2.test or f2 is helper:
                continue
            calls = find_all(f2.body, lambda n: n.get("k") == "call" and n["f"]["k"] == "path" and n["f"]["segs"][-1] == short)
            if not calls or not self.refers_to(f2, helper):
                continue
            try:
                fb = self.b.fn_ir(k2)
            except F.AnchorMissing:
                return None
            env = self.g.bindings(fb)
            for cl in calls:
                a = rx.var_name(cl["args"][0]) if cl["args"] else None
                n = env.get(a)
                if n is None or n["t"] != "set":
                    # the caller hands on its own parameter: the strings *it* is applied to (a conversion used as `.map(F)`)
                    via = self.param_string_sources(f2, a) if a is not None else None
                    if via is None:
                        return None
                    out += [("%s(%s) ← %s" % (k2, a, w_), n_["cs"]) for w_, n_ in via]
                    continue
                out.append(("%s(%s)" % (k2, a), n["cs"]))
        return out or None

    def param_string_sources(self, f, pname):
        """[(where, set node)]: the character-set parsers whose text reaches the parameter `pname` of `f` — `f` must be used
        nowhere but as the function of a `.map(..)` standing directly on such a parser (`take_while(1.., set).map(Who::from)`).
        None when some use of `f` is of another kind or `pname` is not its one value parameter."""
        ps = [n_ for n_, _ in f.params if n_ and n_ != "self"]
        if ps != [pname]:
            return None
        ty = norm_ty(f.impl["self_ty"]).split("<")[0] if f.impl is not None else None
        found, other = [], []

        def names_f(pth):
            segs = pth.get("segs") or []
            if not segs or segs[-1] != f.name:
                return False
            if ty is not None:
                return len(segs) >= 2 and segs[-2] in (ty, "Self")
            return True

        def visit(k2):
            def w(n):
                same_body = isinstance(n.get("f"), dict) and n["f"].get("k") == "closure" and [rx.pat_bindings(p_) for p_ in n["f"]["params"]] == [[pname]] and src(n["f"]["body"]).strip("{} ") == src(f.body).strip("{} ")
                if n["t"] == "map" and isinstance(n.get("f"), dict) and ((n["f"].get("k") == "path" and names_f(n["f"])) or same_body):
                    inner = A.unwrap(n["p"])
                    while inner["t"] in ("ctx", "cut"):
                        inner = A.unwrap(inner["p"])
                    if inner["t"] == "set":
                        found.append((k2, inner))
                    else:
                        other.append(k2)

            self.g.walk(self.b.fn_ir(k2), w, follow=False)

        for k2, f2 in self.f.fns.items():
            if f2.test:
                continue
            uses = find_all(f2.body, lambda n: n.get("k") == "path" and names_f(n), skip_pats=True)
            if not uses or f2 is f:
                continue
            before = len(found)
            try:
                visit(k2)
            except F.AnchorMissing:
                return None
            if len(found) - before != len(uses):
                return None  # a use that is not the function of a map over a character set
        if other or not found:
            return None
        return found

    def set_cover_tokens(self, f, mt, toks):
        have = {t.split("::")[1] for t in toks}
        found = []

        def w(n):
            if n["t"] == "map" and n["f"].get("k") == "closure" and find_all(n["f"], lambda x: x is mt):
                inner = A.unwrap(n["p"])
                if inner["t"] == "tokset" and not inner.get("neg"):
                    found.append(set(inner["toks"]))

        for k2, f2 in self.f.fns.items():
            if f2.test or f2.module[:1] != ("find_parser",):
                continue
            try:
                self.g.walk(self.b.fn_ir(k2), w, follow=False)
            except F.AnchorMissing:
                pass
        if not found:
            return None, "set-cover", "token-class origin not recognised in %s" % f.key
        ok = all(x <= have for x in found)
        return ok, "set-cover", "scrutinee is a token accepted by one_of(%s); arms cover %s" % ([sorted(x) for x in found], sorted(have))

    def variant_cover_update(self, f):
        utab = c13.update_table(self.f, f) or {}
        handled = {v for v, ent in utab.items() if ent[0] != "panic"}
        if not utab:
            return None, "variant-cover", "update() could not be interpreted path by path"
        tokfn = self.an.role("token")
        built = {}
        for a in kw.alternatives(self.g, tokfn):
            ctor = kw.ctor_of_transform(a, self.scope)
            if ctor and ctor.startswith("GlobalOption::"):
                seq_ir = {"t": "seq", "l": None, "items": [{"p": {"t": "lit", "l": None, "s": a.lit or ""}, "keep": True}] + [{"p": r["n"], "keep": r["keep"]} for r in a.rest]}
                if not c05.never_succeeds(self.g, seq_ir):
                    built[ctor.split("::")[1]] = a.lit
        missing = sorted(set(built) - handled)
        # other constructor sites of GlobalOption outside the parser
        return (not missing), "variant-cover", "update() handles %s; the grammar can build %s%s" % (sorted(handled), sorted(built), "" if not missing else " — %s reach the panicking catch-all" % missing)

    def never_built_precedence(self):
        sites = []
        for fn in self.f.nontest_fns():
            for n in find_all(fn.body, lambda n: n.get("k") == "path" and len(n["segs"]) >= 2 and n["segs"][-1] == "Precedence" and n["segs"][-2] in ("Ope", "Operator"), skip_pats=True):
                sites.append(fn.key)
        return (not sites), "never-built", "Operator::Precedence has %d constructor site(s) in the crate%s: a tree returned by parse() never contains it" % (len(sites), (" " + str(sites)) if sites else "")

    def never_built_global(self):
        """Exp::Global is built only from Token::Global in atom(); _parse maps every Token::Global to Token::Test(True) first."""
        sites = []
        for fn in self.f.nontest_fns():
            for n in find_all(fn.body, lambda n: n.get("k") == "path" and len(n["segs"]) >= 2 and n["segs"][-1] == "Global" and n["segs"][-2] in ("Exp", "Expression"), skip_pats=True):
                sites.append(fn.key)
        infn = self.f.fn(self.an.role("parse_inner"))
        from . import c06

        from .. import innerval

        from .. import innerval

        S = c06.inner_summary(self.b, infn)
        lexk, entryk = self.an.role("lex"), self.an.role("prec_entry")
        mapped = False
        for t in S.traversals():
            if t["mode"] not in ("map", "mutate") or t["adaptors"]:
                continue
            o = S.origin(t["over"])
            if o["v"] == "ifempty":
                o = S.origin(o["els"])
            if not (o["v"] == "parsed" and o["ir"]["t"] == "ref" and o["ir"]["fn"] == lexk):
                continue
            for cs in t["cases"]:
                for p in rx.pat_cases(cs["pat"]) if cs["pat"] is not None else []:
                    pv = rx.pat_variant(p)
                    if pv and pv[0] == "Token::Global" and not cs.get("guard") and isinstance(cs["result"], dict) and not find_all(cs["result"], lambda n: n.get("k") == "path" and n["segs"][-1] == "Global"):
                        ap = [e for e in S.events if e["e"] == "apply" and e["fn"] == entryk]
                        mapped = len(ap) == 1 and ap[0]["arg"]["v"] == "list" and ap[0]["arg"]["from"] == t["id"] and not S.unknown
        entry = self.an.role("prec_entry")
        atom_only = all(s.startswith(self.f.fn(entry).module[0]) and "precedence" in s for s in sites)
        how_ = ""
        if not mapped:
            # the statements are not of the recognised shape: the inner function is evaluated on scenarios
            EV, _why = innerval.cached(self.f, self.b, self.an)
            if EV is not None:
                mapped = EV["ok_tokens"] and EV["ok_empty"]
                how_ = " (%s)" % innerval.how(EV)
        ok = mapped and atom_only
        return ok, "never-built", "Expression::Global is constructed only in %s (from Token::Global); the inner parse function replaces every Token::Global before the precedence parser runs: %s%s" % (sorted(set(sites)), mapped, how_)

    # ------------------------------------------------------------ unwraps
    def unwrap_site(self, s, f):
        fn = f.key
        unwraps = sorted(find_all(f.body, lambda n: n.get("k") == "mcall" and n["m"] in ("unwrap", "expect", "unwrap_err") and not n["args"][1:]), key=lambda n: (n["l"]))
        # MIR ordinal counts per callee type (Option vs Result); select by receiver kind heuristically through line order
        same = [u for u in unwraps]
        typ = "Option" if "Option" in s["what"] else "Result"
        # choose the site on the same line when possible (information only), else by ordinal
        cand = [u for u in same if u["l"] == s["line"]] or same
        node = cand[0] if len(cand) == 1 else (cand[min(s["ord"], len(cand)) - 1] if cand else None)
        if node is None:
            return None, "census", "unwrap in %s not found in the syntax tree" % fn
        return self.unwrap_node(f, node)

    def unwrap_node(self, f, node):
        fn = f.key
        recv = node["recv"]
        rs = src(recv)
        # const-arg: from_bits(0).unwrap()
        if recv["k"] == "call" and recv["f"]["k"] == "path" and recv["f"]["segs"][-1] == "from_bits" and len(recv["args"]) == 1:
            v = rx.int_const(recv["args"][0])
            if v == 0:
                return True, "const-arg", "from_bits(0) is always Some"
            return self.radix(f, node, recv)
        if recv["k"] == "call" and recv["f"]["k"] == "path" and recv["f"]["segs"][-1] == "from_str_radix":
            return self.radix(f, node, recv)
        # formatting into a String: `<String as fmt::Write>` never fails, so write_fmt / write! only returns Err when a
        # Display impl does — std's do not, and the crate's own are examined by C03.render
        wf = recv
        if wf["k"] == "macro" and wf["name"] in ("write", "writeln") and wf.get("args"):
            tgt_ = rx.var_name(rx.peel(wf["args"][0]))
        elif wf["k"] == "mcall" and wf["m"] == "write_fmt" and len(wf["args"]) == 1:
            tgt_ = rx.var_name(rx.peel(wf["recv"]))
        else:
            tgt_ = None
        if tgt_ is not None:
            ptys = {n_: t_ for n_, t_ in f.params if n_}
            lets_ = {rx.pat_bindings(s_["pat"])[0]: s_ for s_ in find_all(f.body, lambda n_: n_.get("k") == "let") if rx.pat_bindings(s_["pat"])}
            is_string = ptys.get(tgt_, "").replace("&mut", "").replace("&", "") == "String"
            if not is_string and tgt_ in lets_ and lets_[tgt_].get("init") is not None:
                i0 = rx.peel(lets_[tgt_]["init"])
                is_string = i0.get("k") == "call" and i0["f"].get("k") == "path" and i0["f"]["segs"][-2:] in (["String", "new"], ["String", "with_capacity"], ["String", "from"])
            if is_string:
                return True, "const-arg", "formatting into the String `%s`: `impl fmt::Write for String` cannot fail (Display impls of the crate: C03.render)" % tgt_
        # clock
        if "duration_since" in rs and "UNIX_EPOCH" in rs:
            return True, "clock", "SystemTime::now().duration_since(UNIX_EPOCH).unwrap(): environment assumption (clock ≥ 1970), recorded in `assumptions`"
        # not-partial
        if recv["k"] == "mcall" and recv["m"] == "into_inner":
            partial = [k for k, fn2 in self.f.fns.items() if not fn2.test and find_all(fn2.node, lambda n: isinstance(n, dict) and n.get("k") == "path" and "Partial" in n.get("segs", []))]
            gen = [cl["generics"] for bd in self.m.bodies.values() for cl in bd["calls"] if "Partial<" in cl["generics"]]
            return (not partial and not gen), "not-partial", "ErrMode::into_inner() is None only for Incomplete, which needs a Partial<_> stream; uses of Partial in the crate: %d (syntax) / %d (resolved generic arguments)" % (len(partial), len(gen))
        # nonempty: reduce()/first() of a value produced by Set(min≥1)/RepTill(min≥1)
        # an element of a collection that is Some exactly when the collection is not empty: first()/last()/pop(),
        # iter().next() / into_iter().next(), get(0)
        if recv["k"] == "mcall":
            base = None
            if recv["m"] in ("first", "last", "pop", "first_mut", "last_mut") and not recv["args"]:
                base = recv["recv"]
            elif recv["m"] == "next" and not recv["args"] and recv["recv"]["k"] == "mcall" and recv["recv"]["m"] in ("iter", "into_iter", "iter_mut") and not recv["recv"]["args"]:
                base = recv["recv"]["recv"]
            elif recv["m"] == "get" and len(recv["args"]) == 1 and rx.int_const(recv["args"][0]) == 0:
                base = recv["recv"]
            if base is not None and rx.var_name(base) is not None:
                return self.first_unwrap(f, node, dict(recv, recv=base))
        if recv["k"] == "call" and recv["f"]["k"] == "path" and len(recv["args"]) > 1:
            r_nc = self.nonempty_concrete(f, recv)
            if r_nc is not None:
                return r_nc
        if recv["k"] == "call" and recv["f"]["k"] == "path" and len(recv["args"]) == 1:
            hname = recv["f"]["segs"][-1]
            h = next((x for x in self.f.fns.values() if x.name == hname and not x.test), None)
            if h is not None and h.impl is not None or (h is not None and norm_ty(h.node.get("output") or "").startswith("Option<")):
                # a crate helper returning an Option built from its one argument: Some whenever the argument is not empty
                r_ne = self.nonempty_symbolic(f, recv)
                if r_ne[0] is not None:
                    return r_ne
        # ensure-get
        core = recv
        while core["k"] == "mcall" and core["m"] in ("as_ref", "as_mut", "clone", "cloned", "copied", "as_deref") and not core["args"]:
            core = core["recv"]
        if (core["k"] == "mcall" and core["m"] in ("get", "get_mut")) or (core["k"] == "field" and rx.is_var(core["e"], "self")):
            return self.ensure_get(f, node, core)
        fd = self.finite_domain_free(f)
        if fd is not None:
            return fd[0], "finite-domain", fd[1]
        return None, "census", "unwrap of `%s` in %s: no discharge form applies" % (rs[:60], fn)

    def radix(self, f, node, recv):
        """take_while(min..max, digits).map(|s| T::from_str_radix(s, R).unwrap()) [.map(|b| X::from_bits(b).unwrap())]"""
        hits = []

        def w(n):
            if n["t"] == "map" and find_all(n["f"], lambda x: x is node):
                inner = n["p"]
                chain = [n]
                while inner["t"] in ("map", "ctx", "cut"):
                    if inner["t"] == "map":
                        chain.append(inner)
                    inner = inner["p"]
                if inner["t"] == "set":
                    hits.append((inner, chain))

        # the conversion may sit in the parser function itself or in a private helper handed to `.map(..)`
        for k2, f2 in self.f.fns.items():
            if f2.test or f2.module[:1] != ("find_parser",):
                continue
            try:
                self.g.walk(self.b.fn_ir(k2), w, follow=False)
            except F.AnchorMissing:
                pass
        if not hits:
            ok2, det2 = self.panic_free_by_evaluation(f)
            if ok2 is not None:
                return ok2, "radix-bound", det2
            return None, "radix-bound", "digit source of the conversion in %s not recognised (%s)" % (f.key, det2)
        st, chain = hits[0]
        # find the radix conversion feeding this value
        convs = []
        for mnode in chain:
            convs += find_all(mnode["f"], lambda x: x.get("k") == "call" and x["f"]["k"] == "path" and x["f"]["segs"][-1] == "from_str_radix")
        if not convs:
            return None, "radix-bound", "no from_str_radix on the path"
        conv = convs[0]
        ty = conv["f"]["segs"][0]
        radix = rx.int_const(conv["args"][1])
        bits = {"u8": 8, "u16": 16, "u32": 32, "u64": 64, "u128": 128, "usize": 64}.get(ty)
        digits_ok = st["cs"][0] == "in" and radix is not None and all(c_ in "0123456789abcdefghijklmnopqrstuvwxyz"[:radix] for c_ in st["cs"][1])
        if st["max"] is None:
            return False, "radix-bound", "the digit run %s{%d,∞} feeding %s::from_str_radix(_, %s).unwrap() is unbounded: a long enough run overflows %s and the unwrap panics" % (peg.cs_show(st["cs"]), st["min"], ty, radix, ty)
        maxval = radix ** st["max"] - 1
        is_from_bits = recv["f"]["segs"][-1] == "from_bits"
        if is_from_bits:
            from . import c02

            fty = recv["f"]["segs"][-2] if len(recv["f"]["segs"]) >= 2 else None
            allbits = c02.flag_set(self.f, fty) if fty else None
            ok = digits_ok and bits is not None and maxval < 2**bits and allbits is not None and maxval <= allbits and st["min"] >= 1
            return ok, "radix-bound", "%d..%d digits of radix %s: maximum value %s must be a subset of the flag set %s for from_bits(..).unwrap()" % (st["min"], st["max"], radix, oct(maxval), oct(allbits) if allbits else "?")
        ok = digits_ok and bits is not None and maxval < 2**bits and st["min"] >= 1
        return ok, "radix-bound", "%d..%d digits of radix %s: maximum value %d %s %s::MAX" % (st["min"], st["max"], radix, maxval, "≤" if ok else ">", ty)

    def first_unwrap(self, f, node, recv):
        base = recv["recv"]
        name = rx.var_name(base)
        # (a) in the `1 =>` arm of `match NAME.len()`
        for mt in find_all(f.body, lambda n: n.get("k") == "match"):
            sc = mt["scrut"]
            if sc["k"] == "mcall" and sc["m"] == "len" and rx.is_var(sc["recv"], name):
                for arm in mt["arms"]:
                    if find_all(arm["body"], lambda x: x is node):
                        lits = [p["v"] for p in rx.pat_cases(arm["pat"]) if p["k"] == "lit"]
                        ok = bool(lits) and all(isinstance(v, int) and v >= 1 for v in lits)
                        return ok, "len-arm", "first().unwrap() in the arm len() ∈ %s of `match %s.len()`" % (lits, name)
        # (b) result of repeat_till(min≥1..)
        fb = self.b.fn_ir(f.key)
        bnd = self.g.bindings(fb)
        if name in bnd:
            p = bnd[name]
            while p["t"] in ("map", "ctx", "cut"):
                p = p["p"]
            if p["t"] in ("reptill", "rep", "sep"):
                return p["min"] >= 1, "nonempty", "`%s` is the result of %s with lower bound %d" % (name, p["t"], p["min"])
        return None, "nonempty", "origin of `%s` not recognised" % name

    def nonempty_concrete(self, f, recv):
        """`helper(CONST.., text).unwrap()` where `text` is what a character run over a small alphabet matched: the call is
        evaluated on every text of one to three characters of that alphabet and must yield Some each time (bounded, like the
        symbolic form: the helper's loop over the characters is taken to treat a fourth character as it treats the third)"""
        import itertools
        from .. import probe as P

        fb = self.b.fn_ir(f.key)
        bnd = self.g.bindings(fb)
        idx = [i_ for i_, a_ in enumerate(recv["args"]) if rx.var_name(rx.peel(a_)) in bnd and bnd[rx.var_name(rx.peel(a_))]["t"] == "set"]
        if len(idx) != 1:
            return None
        arg = rx.var_name(rx.peel(recv["args"][idx[0]]))
        n = bnd[arg]
        if not (n["cs"][0] == "in" and 1 <= len(n["cs"][1]) <= 8):
            return None
        bad, cnt = None, 0
        try:
            for ln in range(1, BN.N + 1):
                for tup in itertools.product(sorted(n["cs"][1]), repeat=ln):
                    pr = P.Probe(self.f, norm_ty(f.impl["self_ty"]) if f.impl is not None else None, f.module)
                    pr.cur.append(f)
                    r_ = pr.ev(recv, {arg: "".join(tup)})
                    cnt += 1
                    if not (isinstance(r_, tuple) and len(r_) == 2 and r_[0] == "some"):
                        bad = "".join(tup)
                        break
                if bad:
                    break
        except (P.NoEval, P.Panic) as ex:
            return None
        return n["min"] >= 1 and bad is None, "nonempty", ("`%s` is parsed by %s{%d,}: `%s` evaluated on each of the %d texts of up to " + str(BN.N) + " of these characters yields Some%s") % (arg, peg.cs_show(n["cs"]), n["min"], src(recv)[:60], cnt, "" if bad is None else " — EXCEPT on %r" % bad)

    def nonempty_symbolic(self, f, recv):
        fb = self.b.fn_ir(f.key)
        arg = rx.var_name(recv["args"][0]) if recv["args"] else None
        bnd = self.g.bindings(fb)
        if arg in bnd and bnd[arg]["t"] == "set":
            n = bnd[arg]
            # the helper must be a reduce over the characters of its argument
            hname = recv["f"]["segs"][-1]
            h = next((x for x in self.f.fns.values() if x.name == hname and not x.test), None)
            red = h is not None and bool(find_all(h.body, lambda x: x.get("k") == "mcall" and x["m"] == "reduce")) and bool(find_all(h.body, lambda x: x.get("k") == "mcall" and x["m"] == "chars"))
            if h is not None and not red:
                # any other spelling (first character, then a loop over the rest; fold from an Option; …): the helper is
                # evaluated on texts of one, two and three unknown characters (functions of one character uninterpreted) and
                # must yield Some each time
                from .. import probe as P

                try:
                    oks = []
                    for n_ in range(1, BN.N + 1):
                        pr = P.Probe(self.f, None, h.module)
                        pr.opaque_calls = {g_.key for g_ in self.f.fns.values() if not g_.test and [t_ for nn_, t_ in g_.params if nn_ != "self"] == ["char"]}
                        r_ = pr.invoke(h, None, [[P.Opq("c%d" % i_) for i_ in range(n_)]])
                        oks.append(isinstance(r_, tuple) and r_ and r_[0] == "some")
                    red = all(oks)
                except (P.NoEval, P.Panic):
                    red = False
            return n["min"] >= 1 and red, "nonempty", "`%s` is parsed by %s{%d,}: reduce() over a non-empty string is Some" % (arg, peg.cs_show(n["cs"]), n["min"])
        via = self.param_string_sources(f, arg) if arg is not None else None
        if via:
            # the argument is the function's own parameter, and the function is only ever mapped over character-set parsers
            hname = recv["f"]["segs"][-1]
            h = next((x for x in self.f.fns.values() if x.name == hname and not x.test), None)
            from .. import probe as P

            red = False
            if h is not None:
                try:
                    oks = []
                    for n_ in range(1, BN.N + 1):
                        pr = P.Probe(self.f, None, h.module)
                        pr.opaque_calls = {g_.key for g_ in self.f.fns.values() if not g_.test and [t_ for nn_, t_ in g_.params if nn_ != "self"] == ["char"]}
                        r_ = pr.invoke(h, None, [[P.Opq("c%d" % i_) for i_ in range(n_)]])
                        oks.append(isinstance(r_, tuple) and r_ and r_[0] == "some")
                    red = all(oks)
                except (P.NoEval, P.Panic):
                    red = False
            okmin = all(n_["min"] >= 1 for _, n_ in via)
            return okmin and red, "nonempty", "`%s` is the text of %s (the function is only used as `.map(..)` on these parsers): %s yields Some for every non-empty text" % (arg, ["%s{%d,} in %s" % (peg.cs_show(n_["cs"]), n_["min"], w_) for w_, n_ in via], hname)
        return None, "nonempty", "argument `%s` not bound from a parser tuple" % arg

    def ensure_get(self, f, node, recv):
        """m.get(k).unwrap() dominated by the ensure idiom; decided on the interpreter's paths: on every path the returned
        lookup key was either inserted on that path or the path condition says it is present."""
        fn = f.key
        if f.impl is None:
            return None, "ensure-get", "not a method"
        rows = codegen.table(self.f, fn, codegen.AFF())
        fld = None
        optfield = recv["k"] == "field"
        if optfield:
            fld = recv["name"] if rx.is_var(recv["e"], "self") else None
        else:
            base = recv["recv"]
            fld = base["name"] if base["k"] == "field" and rx.is_var(base["e"], "self") else None
        if fld is None:
            return None, "ensure-get", "receiver `%s` not a field of self" % src(recv)
        bad = []
        for r in rows:
            if r["unknown"]:
                bad.append("path [%s] has unmodelled constructs" % r["cond"][:50])
                continue
            # the interpreter resolves `.unwrap()` of a lookup exactly when the entry was stored earlier on the path or the
            # path condition says it is present; an unwrap it could not resolve is left in the values of the path
            txt = r["outcome"] + " " + " ".join(r["effects"])
            left = re.findall(r"self\.%s(?:\.get\((?:[^()]|\([^()]*\))*\))?\.unwrap\(\)" % re.escape(fld), txt)
            if left:
                bad.append("path [%s]: `%s` — presence of the entry is not established" % (r["cond"][:80], left[0][:60]))
        return (not bad), "ensure-get", "`%s.unwrap()` — on each of the %d paths of %s the entry was inserted on that path or the path condition established its presence%s" % (src(recv)[:50], len(rows), fn, "" if not bad else "; EXCEPT " + "; ".join(bad))

    # ------------------------------------------------------------ arithmetic
    def overflow(self, s, f):
        fn = f.key
        ops = find_all(f.body, lambda n: n.get("k") == "binary" and n["op"] in ("+", "-", "*", "+=", "-=", "*=", "<<"))
        # constants only?
        if ops and all(rx.int_const(o) is not None for o in ops if o["op"] in ("+", "-", "*", "<<")) and not any(o["op"].endswith("=") for o in ops):
            ty = norm_ty(f.node["output"])
            al = self.f.types.get(ty)
            ty = norm_ty(al["ty"]) if al else ty
            bits = {"u8": 8, "u16": 16, "u32": 32, "u64": 64, "usize": 64}.get(ty, 32)
            vals = [rx.int_const(o) for o in ops]
            ok = all(0 <= v < 2**bits for v in vals)
            return ok, "arith", "all arithmetic in %s is over literals; every (sub)expression value %s fits %s" % (fn, sorted(set(vals))[-3:], ty)
        # the hand-written radix conversion: DIGITS.chars()..to_digit(R)...fold(0, |acc, d| acc * R + d) over a digit run of at
        # most M characters of radix ≤ R has the value of a number below R^M
        rf = self.radix_fold(f, ops)
        if rf is not None:
            return rf[0], "arith", rf[1]
        # arithmetic on lengths only: `2 * xs.len()`, `a.len() + b.len() + 1` — a collection never has more than 2^48 elements
        # (address space), so a small multiple or a sum of a few lengths stays far below usize::MAX
        def lenish(x):
            x = rx.peel(x)
            if x.get("k") == "mcall" and x["m"] in ("len", "count", "capacity") and not x["args"]:
                return True
            c_ = rx.int_const(x)
            if c_ is not None:
                return 0 <= c_ < 2**15
            return x.get("k") == "binary" and x["op"] in ("+", "*") and lenish(x["lhs"]) and lenish(x["rhs"]) and (x["op"] == "+" or rx.int_const(x["lhs"]) is not None or rx.int_const(x["rhs"]) is not None)

        if ops and all(o["op"] in ("+", "*") and lenish(o) for o in ops) and len(ops) <= 8:
            return True, "arith", "all arithmetic in %s is a small multiple or a sum of collection lengths (%s): bounded by the address space, far below usize::MAX" % (fn, "; ".join(src(o)[:40] for o in ops[:3]))
        # arithmetic of the generated-name counter, wherever it is written (manager methods, a nested state struct, free
        # helpers of the manager module): decided on the interpreter's paths of the three allocating entry points
        ok_sem, det_sem = self.counter_arith_semantic(f)
        if ok_sem is not None:
            return ok_sem, "arith", det_sem
        # manager counter
        if f.impl is not None and norm_ty(f.impl["self_ty"]) in codegen.MANAGERS:
            bad = []
            for o in ops:
                lhs = o["lhs"]
                is_ctr = lhs["k"] == "field" and rx.is_var(lhs["e"], "self") and lhs["name"] == "var_index"
                cval = rx.int_const(o["rhs"])
                if not (is_ctr and cval is not None and 1 <= cval <= 2 and o["op"] in ("+", "+=", "-")):
                    bad.append(src(o))
            # subtraction only after the bump on the same path: affine result non-negative (checked by C11: returned = v+1)
            rows = codegen.table(self.f, fn, codegen.AFF())
            neg = [r["cond"] for r in rows if re.search(r"v-\d", " ".join(r["effects"]) + r["outcome"])]
            wide, wdet = counter_width_ok(self.f)
            ok = not bad and not neg and wide
            return ok, "arith", "counter var_index changed only by ±1/+2 (%d sites); affine values never drop below the entry value on any path (%d paths); one allocation per AST node, bounded by the 4 KiB input bound; %s%s" % (len(ops), len(rows), wdet, "" if ok else "; offending: %s %s" % (bad, neg))
        if fn == "Size::byte_size":
            return self.byte_size_guard(f, ops)
        # a free helper that receives the manager counter as an argument and adds a small constant to it
        if f.impl is None and ops:
            ptys = {n: ty for n, ty in f.params if n}
            pidx = {n: i for i, (n, _) in enumerate(f.params)}
            bad, used = [], set()
            for o in ops:
                pn = rx.var_name(o["lhs"])
                cval = rx.int_const(o["rhs"])
                if not (pn in ptys and ptys[pn] in WIDE_COUNTER and cval is not None and 1 <= cval <= 2 and o["op"] == "+"):
                    bad.append(src(o))
                else:
                    used.add(pn)
            sites = []
            for f2 in self.f.nontest_fns():
                if f2 is f or not self.refers_to(f2, f):
                    continue
                for cl in find_all(f2.body, lambda n: n.get("k") == "call" and n["f"]["k"] == "path" and n["f"]["segs"][-1] == f.name):
                    in_mgr = f2.impl is not None and norm_ty(f2.impl["self_ty"]) in codegen.MANAGERS
                    for pn in used:
                        a = rx.peel(cl["args"][pidx[pn]]) if pidx[pn] < len(cl["args"]) else None
                        is_ctr = a is not None and a.get("k") == "field" and rx.is_var(a["e"], "self") and a["name"] == "var_index"
                        sites.append((f2.key, src(a) if a else None, in_mgr and is_ctr))
            okc = bool(sites) and all(x[2] for x in sites)
            wide, wdet = counter_width_ok(self.f)
            if not bad and okc and wide:
                return True, "arith", "%s adds 1/2 to its %s parameter(s) %s; every caller (%s) passes the manager counter self.var_index, which is bounded by the allocation count (one per AST node, 4 KiB input bound); %s" % (fn, "/".join(sorted({ptys[p_] for p_ in used})), sorted(used), sorted({x[0] for x in sites}), wdet)
        return False, "arith", "overflow-checked %s on run-time operands [%s] in %s: panics in debug, wraps in release" % (s["what"], s["operands"], fn)

    def radix_fold(self, f, ops):
        """(ok, detail) when every arithmetic operation of `f` belongs to a fold of the form
        `TEXT.chars()[.filter_map/.map/.flat_map(.. to_digit(R) ..)].fold(0, |acc, d| acc * R + d)` where TEXT is the text a
        bounded run of radix-R digits matched; None when the function has arithmetic of another kind."""
        folds = find_all(f.body, lambda n: n.get("k") == "mcall" and n["m"] == "fold" and len(n["args"]) == 2 and rx.peel(n["args"][1]).get("k") == "closure")
        if not folds or not ops:
            return None
        covered, dets = [], []
        for fo in folds:
            clo = rx.peel(fo["args"][1])
            if len(clo["params"]) != 2 or rx.int_const(fo["args"][0]) != 0:
                continue
            pn = []
            for p_ in clo["params"]:
                while p_.get("k") in ("typed", "ref"):
                    p_ = p_["pat"]
                pn.append(p_.get("name") if p_.get("k") == "ident" else None)
            body = rx.peel(clo["body"])
            if body.get("k") == "block" and len(body["stmts"]) == 1 and body["stmts"][0]["k"] == "expr":
                body = rx.peel(body["stmts"][0]["e"])
            if None in pn or body.get("k") != "binary" or body["op"] != "+":
                continue
            def uncast(x):
                x = rx.peel(x)
                while x.get("k") == "cast":
                    x = rx.peel(x["e"])
                return x

            a_, b_ = uncast(body["lhs"]), uncast(body["rhs"])
            if rx.is_var(b_, pn[0]) or (b_.get("k") == "binary" and b_["op"] == "*"):
                a_, b_ = b_, a_
            if not (a_.get("k") == "binary" and a_["op"] == "*" and rx.is_var(b_, pn[1])):
                continue
            ml, mr = rx.peel(a_["lhs"]), rx.peel(a_["rhs"])
            K = rx.int_const(mr) if rx.is_var(ml, pn[0]) else rx.int_const(ml) if rx.is_var(mr, pn[0]) else None
            if K is None:
                continue
            # the digits: to_digit(R) somewhere in the receiver chain, on the characters of one variable
            base, chain = rx.method_chain(rx.peel(fo["recv"]))
            tds = find_all(fo["recv"], lambda n: n.get("k") == "mcall" and n["m"] == "to_digit" and len(n["args"]) == 1)
            R = rx.int_const(tds[0]["args"][0]) if len(tds) == 1 else None
            tname = rx.var_name(base)
            if R is None or R > K or tname is None or not chain or chain[0][0] != "chars" or any(m_ not in ("chars", "filter_map", "map", "flat_map", "flatten", "rev", "copied") for m_, _, _ in chain):
                continue
            if any(m_ == "rev" for m_, _, _ in chain):
                pass  # order does not change the bound
            # TEXT is the closure parameter of a `.map` on a bounded digit run
            hit = []

            def w(n, fo=fo, tname=tname):
                if n["t"] == "map" and isinstance(n.get("f"), dict) and find_all(n["f"], lambda x: x is fo):
                    inner = n["p"]
                    while inner["t"] in ("map", "ctx", "cut"):
                        inner = inner["p"]
                    fcl = rx.peel(n["f"])
                    pnm = None
                    if fcl.get("k") == "closure" and len(fcl["params"]) == 1:
                        q_ = fcl["params"][0]
                        while q_.get("k") in ("typed", "ref"):
                            q_ = q_["pat"]
                        pnm = q_.get("name") if q_.get("k") == "ident" else None
                    if inner["t"] == "set" and pnm == tname:
                        hit.append(inner)

            try:
                self.g.walk(self.b.fn_ir(f.key), w, follow=False)
            except F.AnchorMissing:
                pass
            if not hit or hit[0]["max"] is None:
                dets.append("fold in %s: the digit run feeding it is not bounded" % f.key)
                continue
            M = hit[0]["max"]
            sfx = re.search(r"0_?(u8|u16|u32|u64|u128|usize)\b", src(fo["args"][0]))
            bits = {"u8": 8, "u16": 16, "u32": 32, "u64": 64, "u128": 128, "usize": 64}.get(sfx.group(1) if sfx else "", 32)
            okb = K ** M - 1 < 2**bits
            dets.append("fold(0, |acc, d| acc * %d + d) over at most %d digits of radix %d: value ≤ %d %s 2^%d" % (K, M, R, K**M - 1, "<" if okb else "≥", bits))
            if okb:
                covered += find_all(clo, lambda n: n.get("k") == "binary" and n["op"] in ("+", "-", "*", "<<"))
                # the digit is below the radix (≤ 36): converting it to any integer type changes nothing
                self._digit_casts = getattr(self, "_digit_casts", []) + [x for x in find_all(clo, lambda n: n.get("k") == "cast") if rx.is_var(rx.peel(x["e"]), pn[1])]
        if covered and all(any(o is c_ for c_ in covered) or rx.int_const(o) is not None for o in ops):
            return True, "; ".join(dets)
        return None

    def counter_arith_semantic(self, f):
        """(ok, detail) when `f` belongs to the manager machinery (reachable in the resolved program only from the managers'
        allocating methods), else (None, None)."""
        entries = []
        for M in codegen.MANAGERS:
            for meth in ("get_printer", "get_file_printer", "get_matcher"):
                k = codegen.mgr_key(self.f, M, meth)
                if k:
                    entries.append((M, meth, k))
        if not hasattr(self, "_mgr_reach"):
            roots = [p for p in self.m.bodies if any(mir.e1_key(p, self.f) == k for _, _, k in entries)]
            self._mgr_reach = self.m.reachable(roots)
            self._mgr_modules = {tuple(self.f.structs[M]["_module"]) for M in codegen.MANAGERS if M in self.f.structs}
        mine = [p for p in self.m.bodies if mir.e1_key(p, self.f) == f.key]
        # the managers' own machinery: code of the managers' module that the allocating methods reach
        if not mine or not all(p in self._mgr_reach for p in mine) or tuple(f.module) not in self._mgr_modules:
            return None, None
        if not hasattr(self, "_mgr_sem"):
            bad, offs, npaths = [], set(), 0
            for M, meth, k in entries:
                for r in codegen.table(self.f, k, codegen.AFF()):
                    npaths += 1
                    if r["unknown"]:
                        bad.append("%s::%s [%s]: constructs not modelled: %s" % (M, meth, r["cond"][:40], r["unknown"][:2]))
                    txt = r["outcome"] + " " + " ".join(r["effects"])
                    for m_ in re.finditer(r"\{v([+-]\d+)?[:}]|= v([+-]\d+)?\b|, v([+-]\d+)?\]", txt):
                        o = next((g_ for g_ in m_.groups() if g_), "+0")
                        offs.add(int(o))
                    arith = re.findall(r"\((?:[^()]|\([^()]*\))* [-+*] (?:[^()]|\([^()]*\))*\)", re.sub(r'"(?:[^"\\]|\\.)*?"', lambda q: q.group(0) if "{" in q.group(0) else '""', txt))
                    arith = [a_ for a_ in arith if not re.fullmatch(r"\(%lf3:.*", a_) and re.search(r"(self\.|@\d|v[+-]?\d*) [-+*] ", a_)]
                    if arith:
                        bad.append("%s::%s [%s]: arithmetic that is not `counter ± constant`: %s" % (M, meth, r["cond"][:40], arith[:2]))
            wide, wdet = counter_width_ok_layout(self.f)
            if offs and min(offs) < 0:
                bad.append("a generated index below the counter's entry value (offset %d)" % min(offs))
            if offs and max(offs) > 8:
                bad.append("the counter moves by %d in one request" % max(offs))
            self._mgr_sem = (not bad and wide and bool(offs), "on the %d paths of the allocating methods every index is the counter plus a constant in %s and no other arithmetic reaches a value; %s%s" % (npaths, sorted(offs), wdet, ("; " + "; ".join(bad[:3])) if bad else ""))
        return self._mgr_sem

    def byte_size_guard(self, f, ops):
        """count × unit in Size::byte_size is guarded at construction: every Size the parser builds passed the same product
        through checked_mul in a verify."""
        fn = f.key
        ops = [o for o in ops if o["op"] in ("*",)]
        pk = "<Size as Parseable>::parse"
        pf = self.f.fns.get(pk)
        if pf is not None and len(ops) == 1:
            op = ops[0]
            unit_m = rx.peel(op["rhs"])
            unit_name = unit_m["m"] if unit_m.get("k") == "mcall" and rx.is_var(unit_m["recv"], "self") and not unit_m["args"] else None
            fb = self.b.fn_ir(pk)
            body = A.single_body(fb)
            if body is None and fb["t"] == "fnbody" and not fb["steps"] and not fb["unknown"] and fb["tail"] is not None:
                body = A.unwrap(fb["tail"])
            why = "no verify guard around the alternatives of %s" % pk
            from . import c19

            sem_ok, sem_det = c19.byte_size_semantic(self.f)
            unit_name = unit_name or ("mult" if sem_ok else None)
            if not sem_ok:
                why = "byte_size is not count × unit of self: %s" % sem_det
            elif body is not None and body["t"] == "verify" and unit_name and op["op"] == "*":
                live = [A.unwrap(a) for a in A.flat_alts(body["p"]) if not c05.never_succeeds(self.g, a)]
                okg, why = size_guard(body["f"], unit_name, self.f, self.f.fns[pk].module)
                if okg and live:
                    return True, "arith", "count × unit in Size::byte_size: every Size the parser builds (%d live alternatives) passed `count.checked_mul(size.%s()).is_some()` on the same u64 operands in a verify (dominating range guard at construction)" % (len(live), unit_name)
            return False, "arith", "integer Mul on run-time operands in %s (`%s`): the construction-time guard is not the same product (%s): overflow panics in debug builds and wraps in release" % (fn, src(op), why)
        return False, "arith", "integer arithmetic on run-time operands in %s: overflow panics in debug builds and wraps in release" % fn

    def arith_call(self, s, f):
        fn = f.key
        ops = find_all(f.body, lambda n: n.get("k") == "binary" and n["op"] in ("+", "-", "*", "/", "%", "<<", ">>"))
        guard = find_all(f.body, lambda n: n.get("k") == "mcall" and n["m"].startswith("checked_"))
        if not ops and guard:
            return True, "arith", "checked arithmetic"
        if fn == "Size::byte_size":
            return self.byte_size_guard(f, ops)
        return False, "arith", "integer %s through an operator trait on run-time operands in %s (`%s`): overflow panics in debug builds and wraps in release" % (s["what"].split("::")[-2] if "::" in s["what"] else s["what"], fn, src(ops[0]) if ops else "?")


WIDE_COUNTER = {"u16": 16, "u32": 32, "u64": 64, "usize": 64, "u128": 128}
# 4 KiB of input holds at most 4096/3 primaries ("-ls" is the shortest allocating word plus a blank); each allocates at most
# three generated names; both managers start below 8.
MAX_NAMES = 3 * (4096 // 3) + 8


def counter_width_ok(facts):
    """The declared type of every manager's counter (and of the maps' index values) can hold MAX_NAMES."""
    bad, seen = [], []
    for M in codegen.MANAGERS:
        sd = facts.structs.get(M)
        if sd is None:
            bad.append("%s not found" % M)
            continue
        for fl in sd.get("fields", []):
            ty = norm_ty(fl["ty"])
            if fl.get("name") == "var_index":
                seen.append("%s.var_index: %s" % (M, ty))
                if WIDE_COUNTER.get(ty, 0) < 16 or 2 ** WIDE_COUNTER.get(ty, 0) <= MAX_NAMES:
                    bad.append("%s.var_index is %s: it overflows after %s names (an input of 4 KiB can need %d)" % (M, ty, 2 ** {"u8": 8, "i8": 7}.get(ty, 0) if ty in ("u8", "i8") else "?", MAX_NAMES))
            elif re.search(r"HashMap<.*,(u8|i8)>$", ty):
                bad.append("%s.%s stores indices as %s" % (M, fl.get("name"), ty))
    if len(seen) != len(codegen.MANAGERS):
        bad.append("counter field var_index not found in every manager (%s)" % seen)
    return (not bad), ("counter width: %s (needs ≥ %d values)" % (", ".join(seen), MAX_NAMES)) if not bad else "; ".join(bad)


def counter_width_ok_layout(facts):
    """Like counter_width_ok, but the counter is found by role (the one integer field of the manager state)."""
    from .. import mgrstate

    bad, seen = [], []
    for M in codegen.MANAGERS:
        lay = mgrstate.layout(facts, M)
        cp = lay.get("counter")
        if cp is None:
            bad.append("%s: %s" % (M, "; ".join(lay["problems"]) or "no counter"))
            continue
        ty = lay["paths"][cp]
        seen.append("%s.%s: %s" % (M, cp, ty))
        if WIDE_COUNTER.get(ty, 0) < 16 or 2 ** WIDE_COUNTER.get(ty, 0) <= MAX_NAMES:
            bad.append("%s.%s is %s: too narrow for %d names" % (M, cp, ty, MAX_NAMES))
        for p_, t_ in lay["paths"].items():
            if re.search(r"HashMap<.*,(u8|i8)>$", t_):
                bad.append("%s.%s stores indices as %s" % (M, p_, t_))
    return (not bad), ("counter width: %s (needs ≥ %d values)" % (", ".join(seen), MAX_NAMES)) if not bad else "; ".join(bad)


def size_guard(f, unit_name, facts, module=()):
    """The verify predicate, evaluated on Variant(count) for every variant of Size with an unknown count: the answer must be
    `count.checked_mul(k).is_some()` on the u64 payload itself (no conversion of either operand — a wider type would make
    the guard vacuous) with k the unit byte_size multiplies the same variant by.  Written as a closure, a named function,
    with a helper that extracts the count, … — only what is computed counts."""
    from .. import probe as P

    pr = P.Probe(facts, None, tuple(module))
    try:
        gv = pr.ev(f, {})
    except P.NoEval as ex:
        return False, "guard is not a function that can be evaluated: %s" % ex
    bs = facts.fn("Size::byte_size")
    for v in facts.variants("Size"):
        cnt = P.Opq("count")
        size = ("enum", "Size::%s" % v, [cnt])
        try:
            got = pr.apply(gv, [size])
            prod = pr.invoke(bs, size, [])
        except P.NoEval as ex:
            return False, "guard or byte_size not evaluable for Size::%s: %s" % (v, ex)
        if not (isinstance(prod, P.Opq) and prod.expr and prod.expr[0] == "bin" and prod.expr[1] == "*" and any(x is cnt for x in prod.expr[2:]) and any(isinstance(x, int) and not isinstance(x, bool) for x in prod.expr[2:])):
            return False, "byte_size of Size::%s is `%r`, not count × constant" % (v, prod)
        k = next(x for x in prod.expr[2:] if isinstance(x, int))
        ex_ = got.expr if isinstance(got, P.Opq) else None
        if not (ex_ and ex_[0] == "mcall" and ex_[1] == "is_some" and not ex_[3]):
            return False, "guard result for Size::%s is `%r`, not `.is_some()` of a checked product" % (v, got)
        cm = ex_[2].expr if isinstance(ex_[2], P.Opq) else None
        if not (cm and cm[0] == "mcall" and cm[1] == "checked_mul" and len(cm[3]) == 1):
            return False, "guard for Size::%s tests `%r`, not a checked_mul" % (v, ex_[2])
        ops = [cm[2], cm[3][0]]
        if not (any(x is cnt for x in ops) and any(isinstance(x, int) and not isinstance(x, bool) and x == k for x in ops)):
            return False, "guard for Size::%s multiplies `%r` by `%r`, byte_size multiplies the u64 count by %d" % (v, ops[0], ops[1], k)
    return True, ""


# ------------------------------------------------------------------ progress & termination
def progress(c, facts, b, g, mfacts):
    n = 0
    for fn in facts.nontest_fns():
        if fn.module[:1] != ("find_parser",) or fn.key in b.template_fns():
            continue
        try:
            fb = b.fn_ir(fn.key)
        except F.AnchorMissing:
            continue
        reps = []
        g.walk(fb, lambda x: reps.append(x) if x["t"] in ("rep", "reptill", "sep") else None, follow=False)
        for r in reps:
            if b._input_name(fn) is None:
                prm = []
                g.walk(r["p"], lambda x: prm.append(x) if x["t"] == "param" else None, follow=False)
                if prm:
                    # a parser *builder* (no input of its own) repeating one of its parameters: the repetition is examined
                    # where the builder is used, with the actual argument (the body is expanded at every call site; a
                    # use that cannot be expanded is reported as an unmodelled parser there)
                    continue
            n += 1
            nul = g.nullable(r["p"])
            rng = r["max"] is None or r["min"] <= r["max"]
            opq = [o for o in g.opaque_nodes(r["p"], follow=True)]
            ok = (not nul) and rng and not opq
            c.ob(
                "C03.progress",
                fn.key,
                "%s{%s,%s}(%s)" % (r["t"], r["min"], "" if r["max"] is None else r["max"], peg.show(r["p"])[:40]),
                ok if not opq else None,
                "repeated parser is %s; range ascending: %s%s" % ("NULLABLE: winnow's progress assertion panics in debug builds and the loop is cut short in release" if nul else "non-nullable (each iteration consumes ≥ 1 symbol)", rng, ("; unmodelled sub-parser %s" % [o.get("src") for o in opq]) if opq else ""),
                nontrivial=False,
            )
        alts = []
        g.walk(fb, lambda x: alts.append(x) if x["t"] == "alt" else None, follow=False)
        for a in alts:
            if not a["alts"]:
                c.ob("C03.progress", fn.key, "alt(())", False, "empty alt tuple: winnow asserts")
    c.floor("repetition sites", n, 5)
    loops, finite = [], []
    n_for_e1 = 0
    from .. import scope as _scope

    for fn in facts.nontest_fns():
        for x in find_all(fn.body, lambda x: x.get("k") in ("loop", "while", "for")):
            if x["k"] == "for":
                n_for_e1 += 1
                continue
            if not _scope.fn_in_scope(mfacts, facts, fn.key):
                finite.append("%s: %s loop in a function none of the steps the property speaks of can reach" % (fn.key, x["k"]))
                continue
            # a `while let Some(v) = opt(STEP).parse_next(input)? { acc = .. }` that the IR reads as a repetition of STEP:
            # every round consumes at least one symbol of a finite input when STEP is not nullable (the same premise as for
            # winnow's own repetitions, examined by C03.progress), and the body touches nothing but the accumulator
            rep_ = None
            if x["k"] in ("while", "loop") and fn.module[:1] == ("find_parser",):
                # a parser template is examined in each of its instances (its own body has parameters where the parsers go)
                hosts = [fn.key]
                if fn.key in b.template_fns():
                    hosts = [k2 for k2, f2 in facts.fns.items() if not f2.test and f2.impl is None and b._thin_wrapper_of(f2, tail_only=True) is fn]
                try:
                    found_all = bool(hosts)
                    for hk in hosts:
                        reps_ = []
                        g.walk(b.fn_ir(hk), lambda y: reps_.append(y) if y["t"] == "rep" and isinstance(y.get("from_while"), dict) and (y["from_while"] is x or (y["from_while"].get("l") == x.get("l") and y["from_while"].get("k") == x["k"] and hk != fn.key)) else None, follow=False)
                        if not reps_ or any(g.nullable(r_["p"]) or g.opaque_nodes(r_["p"], follow=True) for r_ in reps_):
                            found_all = False
                    rep_ = True if found_all else None
                except F.AnchorMissing:
                    rep_ = None
            if rep_ is not None:
                finite.append("%s: hand-written repetition of a non-nullable parser step" % fn.key)
                continue
            loops.append("%s:%s" % (fn.key, x["k"]))
    # every `for` is decided on the resolved program: the type handed to IntoIterator::into_iter by the loop's desugaring
    # must be a materialised collection or an order-preserving std adaptor stack over one
    n_for_e2 = 0
    _hr = []

    def hand_reach():
        if not _hr:
            _hr.append(mfacts.reachable([q for q in mfacts.bodies if mir.e1_key(q, facts) is not None]))
        return _hr[0]

    for pth, bd in mfacts.bodies.items():
        for cl in bd["calls"]:
            if cl["callee"].endswith("IntoIterator::into_iter") and any("`for` loop" in mm for mm in cl.get("macros", [])):
                n_for_e2 += 1
                ty = cl["generics"][1:-1] if cl["generics"].startswith("[") and cl["generics"].endswith("]") else cl["generics"]
                if finite_iterable(ty):
                    finite.append("%s: for over %s" % (pth, short_ty(ty)))
                elif re.match(r"^\w+/#\d+$", ty) and pth not in hand_reach():
                    # iterator supplied by the caller of a generic (macro-generated) function that no hand-written body of the crate reaches
                    finite.append("%s: for over a caller-supplied %s, unreachable from hand-written code" % (pth, ty))
                elif re.match(r"^\w+/#\d+$", ty):
                    # the iterator is a type parameter of the function: as finite as what the crate's own call sites pass for it
                    # (a FromIterator / Extend impl is reached through std's `collect` / `extend`: those calls are its sites)
                    def sites_finite(fn_path, depth=0):
                        if depth > 3:
                            return False, ["instantiation chain too deep"]
                        sites = [(q, cl2) for q, bd2 in mfacts.bodies.items() for cl2 in bd2["calls"] if (cl2.get("resolved") or cl2["callee"]) == fn_path or cl2["callee"] == fn_path]
                        mt = re.match(r"^<(.+) as (?:std::iter::|core::iter::)?(FromIterator|Extend)<.*>>::(from_iter|extend)$", fn_path)
                        if mt:
                            tname = mt.group(1)
                            std_name = "Iterator::collect" if mt.group(2) == "FromIterator" else "Extend::extend"
                            sites += [(q, cl2) for q, bd2 in mfacts.bodies.items() for cl2 in bd2["calls"] if std_name in cl2["callee"] and tname in cl2["generics"] and (q, cl2) not in sites]
                        bad_ = []
                        for q, cl2 in sites:
                            gs = F.split_generics(cl2["generics"][1:-1]) if cl2["generics"].startswith("[") else [cl2["generics"]]
                            gs = [x.strip().lstrip("&").replace("'{erased} ", "").strip() for x in gs if x.strip() and not x.strip().startswith("'")]
                            gs = [x for x in gs if not (mt and x == mt.group(1))]
                            params_ = [x for x in gs if re.match(r"^\w+/#\d+$", x)]
                            if params_:
                                # handed on from the caller's own type parameter: the caller's sites decide
                                ok_, why_ = sites_finite(q, depth + 1)
                                if not ok_:
                                    bad_.append("%s hands on its own parameter (%s)" % (q, "; ".join(why_)[:120]))
                                continue
                            if not gs or not any(finite_iterable(x) for x in gs) or any(("iter::" in x or "Iterator" in x) and not finite_iterable(x) for x in gs):
                                bad_.append("%s passes %s" % (q, gs))
                        if not sites:
                            bad_.append("no call site of %s in the crate" % fn_path)
                        return not bad_, bad_

                    ok_s, bad_sites = sites_finite(pth)
                    if ok_s:
                        finite.append("%s: for over the type parameter %s, instantiated at its call sites with finite collections only" % (pth, ty))
                    else:
                        loops.append("%s: for over %s (not a known finite iterable)%s" % (pth, ty[:100], ("; " + "; ".join(bad_sites[:2])) if bad_sites else ""))
                else:
                    loops.append("%s: for over %s (not a known finite iterable)" % (pth, ty[:100]))
    if n_for_e2 < n_for_e1:
        loops.append("%d `for` loops in the syntax tree but only %d in the resolved program: some loop was not analysed" % (n_for_e1, n_for_e2))
    c.ob("C03.termination", "crate", "no unbounded loops", not loops, "loop/while (or for over an unbounded iterator) in non-test code: %s" % loops if loops else "0 loop/while in non-test code; for-loops only over finite collections: %s; all other iteration is through winnow repetitions and iterator adaptors" % (finite or "none"))


def linear_time(c, facts, b, g, an):
    """Token-level choice points must be decidable on one token: if two alternatives of an `alt` can start with the same
    token and reach a recursive non-terminal, a failing first alternative re-parses the operand and the work doubles per
    nesting level (exponential time within the property's nesting bound)."""
    from . import c01

    entry = an.role("prec_entry")
    mod = facts.fn(entry).module
    tokens = facts.variants("Token")
    ta = c01.TokAnalysis(g, tokens)
    n = 0
    for key, fn in facts.fns.items():
        if fn.test or fn.module != mod or fn.impl is not None:
            continue
        try:
            fb = b.fn_ir(key)
        except F.AnchorMissing:
            continue
        alts = []
        g.walk(fb, lambda x: alts.append(x) if x["t"] == "alt" else None, follow=False)
        for a in alts:
            n += 1
            firsts = [ta.first(x) for x in a["alts"]]
            clash = []
            for i in range(len(firsts)):
                for j in range(i + 1, len(firsts)):
                    common = firsts[i] & firsts[j]
                    if common:
                        clash.append((peg.show(a["alts"][i])[:50], peg.show(a["alts"][j])[:50], sorted(common)))
            c.ob(
                "C03.linear-time",
                key,
                "choice point %s" % peg.show(a)[:60],
                not clash,
                "alternatives have pairwise disjoint FIRST token sets: one token decides, nothing is parsed twice" if not clash else "alternatives overlap on %s: when the first fails late, the shared operand (which may contain nested parentheses) is parsed again — exponential in the nesting depth" % clash,
                witness="( ( ( ( ( ( ( ( ( ( ( ( ( ( ( ( ( ( ( ( ( ( -true ) ) ) ) ) ) ) ) ) ) ) ) ) ) ) ) ) ) ) ) ) )" if clash else None,
                nontrivial=False,
            )
    c.floor("token-level choice points", n, 2)


def structural_recursion(facts, fn, names):
    """Every call of a function in `names` made inside `fn` has, as receiver or first argument, a variable bound by a
    destructuring pattern (match arm / let / if-let) in `fn` — i.e. a strict sub-term of what `fn` was given."""
    bound = set()
    for mt in find_all(fn.body, lambda n: n.get("k") == "match"):
        for arm in mt["arms"]:
            for pcase in rx.pat_cases(arm["pat"]):
                if pcase["k"] in ("tstruct", "struct", "tuple"):
                    bound |= set(rx.pat_bindings(pcase))
    for st in find_all(fn.body, lambda n: n.get("k") in ("let", "letexpr")):
        if st["pat"]["k"] in ("tstruct", "struct", "or"):
            bound |= set(rx.pat_bindings(st["pat"]))
    calls = find_all(fn.body, lambda n: (n.get("k") == "mcall" and n["m"] in names) or (n.get("k") == "call" and n["f"]["k"] == "path" and n["f"]["segs"][-1] in names))
    if not calls:
        return False
    for cl in calls:
        tgt = cl["recv"] if cl["k"] == "mcall" else (cl["args"][0] if cl["args"] else None)
        if tgt is None:
            return False
        base, chain = rx.method_chain(tgt)
        if not (rx.var_name(base) in bound and all(mm in ("as_ref", "clone", "deref", "borrow", "as_deref") for mm, _, _ in chain)):
            return False
    return True


def _borrowing_accessor(facts, name, args):
    """`x.name()` can only hand out parts of x: a transparent std view, or a crate method (&self, no other argument) whose
    return type is made of references only."""
    if args:
        return False
    if name in ("as_ref", "deref", "borrow", "as_deref", "as_slice", "iter"):
        return True
    cands = [f_ for f_ in facts.fns.values() if f_.name == name and f_.impl is not None and not f_.test]
    if not cands:
        return False
    for f_ in cands:
        out = norm_ty(f_.node.get("output") or "")
        if f_.node.get("self") != "&self" or [n_ for n_, _ in f_.params if n_ != "self"]:
            return False
        leaves = [x for x in re.split(r"[(),<>]|Option|Vec|Box", out) if x]
        if not leaves or not all(x.startswith("&") and not x.startswith("&mut") for x in leaves):
            return False
    return True


def _derived_impl(facts, owner):
    """Name of the std trait when `owner` (`<ast::T as std::hash::Hash>::hash`) is the impl a `#[derive(..)]` on T generates —
    the trait is in T's derive list and the crate has no hand-written impl of it for T — else None."""
    m = re.match(r"^<(?:[a-z_][a-z0-9_]*::)*([A-Z]\w*)(?:<.*>)? as (?:std|core)::(?:\w+::)*(Hash|Eq|PartialEq|PartialOrd|Ord|Clone|Debug|Default)>::\w+$", owner)
    if not m:
        return None
    ty, tr = m.group(1), m.group(2)
    d_ = facts.enums.get(ty) or facts.structs.get(ty)
    if d_ is None or tr not in facts.derives(d_):
        return None
    manual = [i for _, _, i in facts.impls if norm_ty(i["self_ty"]).split("<")[0] == ty and i["trait"] and norm_ty(i["trait"]).split("::")[-1].split("<")[0] == tr]
    return None if manual else tr


def descent_cycle(facts, owners):
    """A recursion cycle over the expression tree is well founded when every call inside it hands on either a strict
    sub-term of the caller's own input (a variable bound by destructuring, or a literal slice of such variables) or the
    caller's input unchanged (a parameter, or an element of a parameter), and the functions that only hand their input on
    do not call each other.  Returns (ok, reason)."""
    fns = [facts.fns[o] for o in owners if o in facts.fns]
    if len(fns) != len(owners):
        return False, "not every member is a source function"
    names = {f.name for f in fns}
    strict_all = {}
    for f in fns:
        bound, same = set(), set(n_ for n_, _ in f.params if n_)
        for mt in find_all(f.body, lambda n: n.get("k") == "match"):
            for arm in mt["arms"]:
                for pc in rx.pat_cases(arm["pat"]):
                    if pc["k"] in ("tstruct", "struct", "tuple"):
                        bound |= set(rx.pat_bindings(pc))
        for st in find_all(f.body, lambda n: n.get("k") in ("let", "letexpr")):
            if st["pat"]["k"] in ("tstruct", "struct", "or"):
                bound |= set(rx.pat_bindings(st["pat"]))
        # parts handed out by an accessor: `let (a, b) = x.parts();` with x a strict sub-term and `parts(&self)` returning
        # references only — by lifetime elision they borrow from x, so they are sub-terms of x
        changed = True
        while changed:
            changed = False
            for st in find_all(f.body, lambda n: n.get("k") == "let" and n.get("init") is not None):
                base, chain = rx.method_chain(rx.peel(st["init"]))
                if rx.var_name(base) in bound and chain and all(_borrowing_accessor(facts, mm, args_) for mm, args_, _ in chain):
                    new_ = set(rx.pat_bindings(st["pat"])) - bound
                    if new_:
                        bound |= new_
                        changed = True
            # closure parameters of Option / iterator adaptors applied to a sub-term: the payload is a sub-term too
            for mc in find_all(f.body, lambda n: n.get("k") == "mcall" and n["m"] in ("is_some_and", "is_none_or", "map", "map_or", "and_then", "any", "all", "for_each", "filter", "find") and n["args"] and n["args"][-1].get("k") == "closure"):
                base, chain = rx.method_chain(rx.peel(mc["recv"]))
                if rx.var_name(base) in bound and all(mm in ("iter", "into_iter", "as_ref", "as_deref", "copied", "cloned") for mm, _, _ in chain):
                    new_ = set()
                    for p_ in mc["args"][-1]["params"]:
                        new_ |= set(rx.pat_bindings(p_))
                    new_ -= bound
                    if new_:
                        bound |= new_
                        changed = True
        for lp in find_all(f.body, lambda n: n.get("k") == "for"):
            base, chain = rx.method_chain(rx.peel(lp["iter"]))
            if rx.var_name(base) in same and all(mm in ("iter", "into_iter", "as_ref", "as_slice") for mm, _, _ in chain):
                same |= set(rx.pat_bindings(lp["pat"]))
            elif rx.var_name(base) in bound:
                bound |= set(rx.pat_bindings(lp["pat"]))
        calls = find_all(f.body, lambda n: (n.get("k") == "mcall" and n["m"] in names) or (n.get("k") == "call" and n["f"]["k"] == "path" and n["f"]["segs"][-1] in names))
        if not calls:
            return False, "%s makes no call into the cycle that could be classified" % f.key
        kinds = []
        for cl in calls:
            cands = [cl["recv"]] if cl["k"] == "mcall" else list(cl["args"])
            kind = None
            for a in cands:
                a0 = rx.peel(a)
                base, chain = rx.method_chain(a0)
                transparent = all(mm in ("as_ref", "clone", "deref", "borrow", "as_deref", "as_slice") for mm, _, _ in chain)
                if a0.get("k") in ("array", "tuple") or (a0.get("k") == "macro" and a0.get("name") == "vec"):
                    elems = a0.get("elems") or a0.get("args") or []
                    if elems and all(rx.var_name(rx.peel(x)) in bound for x in elems):
                        kind = "strict"
                        break
                    continue
                vn = rx.var_name(base)
                if transparent and vn in bound:
                    kind = "strict"
                    break
                if transparent and vn in same and kind is None:
                    kind = "same"
            if kind is None:
                return False, "in %s the call `%s` hands on something that is neither a sub-term nor the input" % (f.key, src(cl)[:60])
            kinds.append(kind)
        strict_all[f.key] = all(k_ == "strict" for k_ in kinds)
    passers = [k_ for k_, v_ in strict_all.items() if not v_]
    # functions that pass their input on must not reach each other without going through a strictly descending one
    pn = {facts.fns[k_].name for k_ in passers}
    for k_ in passers:
        f = facts.fns[k_]
        inner = find_all(f.body, lambda n: (n.get("k") == "mcall" and n["m"] in pn and n["m"] not in {facts.fns[x].name for x in strict_all if strict_all[x]}) or (n.get("k") == "call" and n["f"]["k"] == "path" and n["f"]["segs"][-1] in pn))
        if inner and any((cl["k"] == "call") for cl in inner):
            return False, "%s passes its input on to %s which passes it on again" % (k_, sorted(pn))
    if not any(strict_all.values()):
        return False, "no member of the cycle descends strictly"
    return True, "members %s descend to strict sub-terms; %s hand the same term on to a descending member" % (sorted(k_.split("::")[-1] if not k_.startswith("<") else k_ for k_, v_ in strict_all.items() if v_), sorted(x.split("::")[-1] for x in passers) or "none")


def termination(c, facts, m):
    """Recursion cycles of the resolved call graph (Tarjan SCC over local bodies)."""
    graph = {}
    impls = {}
    for p in m.bodies:
        if p.startswith("<") and " as " in p:
            tr = p.split(" as ", 1)[1]
            trait, _, meth = tr.rpartition(">::")
            impls.setdefault("%s::%s" % (trait, meth), []).append(p)
    for p, bd in m.bodies.items():
        outs = set()
        for cl in bd["calls"]:
            t = cl["resolved"] or cl["callee"]
            if t in m.bodies:
                outs.add(t)
            if cl["virtual"] or not cl["resolved"]:
                for t2 in impls.get(cl["callee"], []):
                    outs.add(t2)
        for r in list(bd["closures"]) + list(bd.get("fnrefs", [])):
            if r in m.bodies:
                outs.add(r)
        graph[p] = outs
    index, low, onst, stack, sccs = {}, {}, set(), [], []
    counter = [0]
    import sys

    sys.setrecursionlimit(10000)

    def strong(v):
        index[v] = low[v] = counter[0]
        counter[0] += 1
        stack.append(v)
        onst.add(v)
        for w in graph[v]:
            if w not in index:
                strong(w)
                low[v] = min(low[v], low[w])
            elif w in onst:
                low[v] = min(low[v], index[w])
        if low[v] == index[v]:
            comp = []
            while True:
                w = stack.pop()
                onst.discard(w)
                comp.append(w)
                if w == v:
                    break
            if len(comp) > 1 or v in graph[v]:
                sccs.append(comp)

    for v in graph:
        if v not in index:
            strong(v)
    for comp in sccs:
        owners = sorted({mir.e1_key(p, facts) or re.sub(r"::\{closure#\d+\}", "", p) for p in comp})
        label = ", ".join(o.split("::")[-1] if not o.startswith("<") else o for o in owners)[:120]
        why = None
        if all("precedence" in (facts.fns[o].module if o in facts.fns else ()) for o in owners):
            why = "precedence parser: every recursive reference (not→atom, parens→list) is preceded by the consumption of one token (C01.ll1), input is finite"
        elif all(o in facts.fns and facts.fns[o].name == "compile" and "TargetScheme" in o for o in owners):
            why = "code generation: structural recursion over the finite Rc tree (children only)"
        elif len(owners) == 1 and owners[0] in ("Expression::action", "Expression::complex_frames"):
            why = "structural recursion over the finite tree (C19 induction)"
        elif all(o in facts.fns and structural_recursion(facts, facts.fns[o], {facts.fns[x].name for x in owners if x in facts.fns}) for o in owners):
            why = "structural recursion: every recursive call is made on a value bound by destructuring the function's own argument (a strict sub-term of a finite tree)"
        elif descent_cycle(facts, owners)[0]:
            why = "recursion over the finite tree: " + descent_cycle(facts, owners)[1]
        elif all(re.search(r" as (std::)?(fmt::)?(Debug|Clone|PartialEq|cmp::PartialEq|clone::Clone|fmt::Debug)>", o) or "std::fmt::Debug" in o or "std::clone::Clone" in o or "std::cmp::PartialEq" in o for o in owners):
            why = "derived/structural Debug/Clone/PartialEq over the finite tree"
        elif all(_derived_impl(facts, o) for o in owners):
            why = "derive-generated impls (%s) over the finite tree: each call descends into a field of its argument" % sorted({_derived_impl(facts, o) for o in owners})
        c.ob("C03.termination", "call graph", "cycle {%s}" % label, why is not None, why or "unrecognised recursion cycle: %s" % owners)
    # the tree cannot be cyclic: no interior mutability in the AST types
    bad = []
    for en in ("Expression", "Operator", "Test", "Action"):
        e = facts.enums.get(en)
        for v in e["variants"] if e else []:
            for fl in v["fields"]:
                if re.search(r"\b(RefCell|Cell|Mutex|RwLock|OnceCell|Weak)\b", fl["ty"]):
                    bad.append("%s::%s: %s" % (en, v["name"], fl["ty"]))
    c.ob("C03.termination", "ast", "expression trees are finite and acyclic", not bad, "interior mutability in AST payloads: %s" % bad if bad else "Rc<Operator> without RefCell/Cell: a tree cannot be made cyclic after construction")
