"""C04 — emitted program is well-formed Scheme; user text stays data (balance, taint into string literals, escapes)."""
import json
import os
import re

from .. import facts as F
from .. import codegen, emit, mgr, rx, peg, kw
from ..facts import src, psrc, find_all, norm_ty

GUILE = os.path.join(F.VERIF, "spec", "guile_string.json")
SANI = os.path.join(F.VERIF, "spec", "sanitisers.json")


# ------------------------------------------------------------------ sanitiser verification
def verified_sanitisers(facts):
    """{fn key: (context name, set of escaped characters)} for every discovered character map whose map is exactly the one a
    context requires; plus the list of character maps that match no context (reported, never accepted)."""
    from .. import sanitise

    ctx = json.load(open(SANI))["contexts"]
    good, other = {}, {}
    for key, info in sanitise.discover(facts).items():
        hit = [n for n, m in ctx.items() if m == info["map"]]
        if hit:
            good[key] = (hit[0], set(info["map"]), info["detail"])
        else:
            other[key] = info["map"]
    return good, other, ctx


# ------------------------------------------------------------------ payload character sets (discharge by grammar)
def payload_charset(facts, enum, variant, idx):
    """Character set of a String payload as far as the *parser* restricts it; None = unrestricted/unknown."""
    if enum != "FormatField":
        return None
    b = peg.Builder(facts)
    g = peg.Grammar(b)
    key = "<FormatField as Parseable>::parse"
    if key not in facts.fns:
        return None
    scope = b.scope(facts.fn(key).module)
    from . import c14

    body = c14.single_body(b.fn_ir(key))
    if body is None or body["t"] != "seq":
        return None
    for a in c14.sub_alts(g, body["items"][1]["p"], key):
        if kw.ctor_of_transform(a, scope) == "%s::%s" % (enum, variant):
            kept = [x for x in kw.flatten_rest(g, a.rest) if x["keep"]]
            if len(kept) == 1 and kept[0]["n"]["t"] == "set":
                return kept[0]["n"]["cs"]
    return None


class Site:
    def __init__(self, where, what, parts, in_string=False, template=False):
        self.where, self.what, self.parts, self.in_string, self.template = where, what, parts, in_string, template


def collect_sites(facts):
    sites = []
    for key in codegen.COMPILE_IMPLS:
        for r in codegen.table(facts, key):
            sites.append(Site(key, r["cond"] or "(unconditional)", r["st"].buf))
            # joined lists (format template and arguments)
            for p in r["st"].buf:
                if p[0] == "join":
                    # where is the join? scan prefix
                    pre = r["st"].buf[: r["st"].buf.index(p)]
                    sc = emit.scan_scheme(pre)
                    ins = sc["in_string_end"]
                    is_tpl = ins and sc["ctx_end"] == ("format", 2)
                    mp = p[1]
                    if mp.get("v") == "mapped":
                        for conds, v in mp["elems"]:
                            vv = v
                            while isinstance(vv, dict) and vv.get("v") in ("ok", "some"):
                                vv = vv["x"]
                            if isinstance(vv, dict) and vv.get("v") == "str":
                                sites.append(Site(key, "element [%s] of [%s]" % (emit.canon_conds(conds), r["cond"] or "unconditional"), vv["parts"], in_string=ins, template=is_tpl))
                            elif isinstance(vv, dict) and vv.get("v") == "hole":
                                sites.append(Site(key, "element [%s] of [%s]" % (emit.canon_conds(conds), r["cond"] or "unconditional"), [("h", vv)], in_string=ins, template=is_tpl))
    for M in codegen.MANAGERS:
        for meth in ("get_printer", "get_file_printer", "get_matcher"):
            k = codegen.mgr_key(facts, M, meth)
            for st, v in codegen.run(facts, k, codegen.AFF()):
                for e in st.effects:
                    if e[0] == "push" and isinstance(e[2], dict) and e[2].get("v") == "str":
                        sites.append(Site(k, "%s binding [%s]" % (e[1], emit.canon_conds(st.conds)[:80]), e[2]["parts"]))
                if isinstance(v, dict) and v.get("v") == "str":
                    sites.append(Site(k, "returned name [%s]" % emit.canon_conds(st.conds)[:80], v["parts"]))
        dv = mgr.default_vars(facts, M)
        lst = dv["fields"].get("vars")
        if lst and lst.get("v") == "list":
            for it in lst["items"]:
                if it.get("v") == "str":
                    sites.append(Site("<%s as Default>::default" % M, "pre-allocated binding", it["parts"]))
        for meth in ("modules", "initialization", "terminate"):
            k = codegen.mgr_key(facts, M, meth)
            for st, v in codegen.run(facts, k, codegen.AFF()):
                if isinstance(v, dict) and v.get("v") == "str":
                    sites.append(Site(k, "[%s]" % emit.canon_conds(st.conds), v["parts"]))
    sk = emit.skeleton(facts)
    if sk and "parts" in sk:
        sites.append(Site("CompiledExpression::scheme", "skeleton", sk["parts"]))
    return sites, sk


def run(c, facts, tier):
    guile = json.load(open(GUILE))
    from .. import glue

    emit.set_taint_carriers(facts)

    glue.obligations(c, facts, peg.Builder(facts), "C04")
    c.trusted = ["E1 extractor", "emission interpreter", "spec/guile_string.json (Guile's string read syntax and format directive character; agreement with the real reader is not checked)"]
    c.explanation = (
        "Three rules over every emission site of the code generator (all arms of the TargetScheme impls, every binding either manager can push, the skeleton): parenthesis balance outside string literals "
        "by structural induction (sub-emissions assumed balanced, which is the same obligation on them), taint: a value derived from user text (String/char payloads, pattern/filename/device-path parameters, "
        "characters built from user numbers) may reach a hole inside a string literal only through a verified sanitiser or if the producing parser's character set excludes the dangerous characters, and never a hole "
        "outside a literal; and legality of the escapes the generator itself writes inside literals. A taint proof is a proof over all strings."
    )
    c.decided = ["two top-level forms, all forms balanced", "user text appears only inside string literals", "user text cannot terminate the literal or introduce a format directive (given a sanitiser)", "generator-written escapes are legal Guile"]
    c.not_decided = ["agreement of spec/guile_string.json with the real Guile reader"]
    legal = set(guile["legal_escapes"])
    # sanitisers
    good_full, other_maps, ctxs = verified_sanitisers(facts)
    good_sani = {k: v[1] for k, v in good_full.items()}
    for cname, cmap in ctxs.items():
        have = sorted(k for k, v in good_full.items() if v[0] == cname)
        c.ob(
            "C04.sanitiser",
            "context " + cname,
            "escapes %s" % sorted(cmap),
            bool(have),
            ("verified character map(s) %s: %s" % (have, good_full[have[0]][2])) if have else "no function of the crate evaluates to the character map %s (character maps found: %s; not evaluable: %s)" % (cmap, other_maps, getattr(facts, "_charmaps_rejected", {})),
        )
    sites, sk = collect_sites(facts)
    c.analysed["emission_sites"] = len(sites)
    # fail closed: the taint and balance rules speak about the paths the interpreter produced; a construct it did not model
    # may write text that is on none of them
    for key in codegen.COMPILE_IMPLS:
        unk = sorted({u for r in codegen.table(facts, key) for u in r["unknown"]})
        c.ob("C04.modelled", key, "every construct of the generator was interpreted", not unk, "unmodelled constructs: %s" % unk[:4] if unk else "all paths fully interpreted", nontrivial=False)
    for M in codegen.MANAGERS:
        for meth in ("get_printer", "get_file_printer", "get_matcher"):
            k = codegen.mgr_key(facts, M, meth)
            unk = sorted({u for r in codegen.table(facts, k, codegen.AFF()) for u in r["unknown"]})
            c.ob("C04.modelled", k, "every construct of the generator was interpreted", not unk, "unmodelled constructs: %s" % unk[:4] if unk else "all paths fully interpreted", nontrivial=False)
    seen_taint = set()
    nholes = 0
    for s in sites:
        sc = emit.scan_scheme(s.parts, in_string=s.in_string)
        frag = s.in_string
        # ---- balance
        if not frag:
            ok = sc["depth_end"] == 0 and sc["min_depth"] >= 0 and not sc["in_string_end"]
            c.ob("C04.balanced", s.where, s.what, ok, "`%s`: parenthesis delta %+d, minimum prefix depth %d, ends inside a string literal: %s" % (emit.show_parts(s.parts)[:100], sc["depth_end"], sc["min_depth"], sc["in_string_end"]), nontrivial=False)
        else:
            # a fragment spliced inside a literal must not leave it
            okf = sc["in_string_end"] and not sc["dangling_escape"]
            if not okf:
                c.ob(
                    "C04.escape-table",
                    s.where,
                    s.what,
                    False,
                    "fragment `%s` spliced inside a string literal %s" % (emit.show_parts(s.parts)[:60], "ends with a lone backslash that escapes whatever follows (possibly the closing quote)" if sc["dangling_escape"] else "closes the literal"),
                    witness="-printf 'a\\\\'" if sc["dangling_escape"] else None,
                )
        for b_ in sc["bad_escapes"]:
            c.ob("C04.escape-table", s.where, "%s escape %s" % (s.what, b_), b_[1] in legal, "escape `%s` written by the generator inside a string literal is not a Guile string escape: the program does not read back" % b_, witness="-printf '\\c'" if b_ == "\\c" else None)
        # ---- taint
        for hi_, (h, in_str, depth, esc) in enumerate(sc["holes"]):
            nholes += 1
            # which reader decodes the literal this hole sits in: Guile's string reader only, or also `format`
            # (the literal is the control string: second argument of a (format dest "..." args..) form)
            tpl = s.template or (in_str and not frag and sc["hole_ctx"][hi_] == ("format", 2))
            if h.get("v") == "join":
                continue  # elements are their own sites
            srcs = emit.tainted(h)
            # characters built from user numbers
            if not srcs and h.get("v") == "hole":
                fu = find_char_from_payload(h)
                if fu:
                    srcs = [fu]
            if not srcs:
                continue
            hk = emit.canon(h)
            key = (s.where, hk, in_str, tpl)
            if key in seen_taint:
                continue
            seen_taint.add(key)
            dangerous = set(guile["format_dangerous"] if tpl else guile["string_dangerous"])
            if not in_str:
                c.ob("C04.taint", s.where, "hole %s outside a string literal" % hk, False, "user text %s is interpolated outside any string literal in `%s`: it is read as code" % (srcs, emit.show_parts(s.parts)[:80]))
                continue
            # discharge 1: sanitiser
            callee = h.get("callee") if h.get("kind") == "call" else None
            want_ctx = "template" if tpl else "string"
            if callee in good_sani and good_full[callee][0] != want_ctx:
                c.ob("C04.taint", s.where, "hole %s in a string literal" % hk, False, "the text is escaped by %s for the `%s` context but the literal is read in the `%s` context: %s" % (callee, good_full[callee][0], want_ctx, "a `~` of the user's text stays a directive" if want_ctx == "template" else "the decoded value is not the user's string (every `~` is doubled)"), witness="-printf '~50%% done\\n'" if want_ctx == "string" else "-name 'a~b'")
                continue
            if callee in good_sani and dangerous <= good_sani[callee]:
                # escaped exactly once: an argument that is itself already escaped text decodes to the escaped form, not to
                # the user's string
                inner_ = [a_ for a_ in (h.get("args") or []) if isinstance(a_, dict)]
                twice = [a_ for a_ in inner_ if (a_.get("kind") == "call" and a_.get("callee") in good_sani) or (emit.is_str(a_) and any(p_[0] == "h" and isinstance(p_[1], dict) and p_[1].get("kind") == "call" and p_[1].get("callee") in good_sani for p_ in a_["parts"]))]
                if twice:
                    c.ob("C04.taint", s.where, "hole %s in a string literal" % hk, False, "the text is escaped twice (%s applied to text already escaped by %s): the literal decodes to the escaped form of the user's string, not to the string" % (callee, twice[0].get("callee") or "a sanitiser"), witness="-name 'a\"b'")
                    continue
                spec_ = h.get("spec") or ""
                if "." in spec_:
                    c.ob("C04.taint", s.where, "hole %s in a string literal" % hk, False, "the text escaped by %s is then truncated by the precision in `{:%s}`: the cut can fall between a backslash and the character it escapes, and the decoded value is no longer the user's string" % (callee, spec_), witness="-pool 'aaaaaaaaaaaaaa\"'")
                    continue
                c.ob("C04.taint", s.where, "hole %s in a string literal" % hk, True, "sanitised by %s (escapes %s)" % (callee, sorted(good_sani[callee])))
                continue
            # discharge 2: the producing parser's character set
            cs = None
            if h.get("kind") == "payload":
                cs = payload_charset(facts, h.get("enum"), h.get("variant"), h.get("idx"))
            if cs is not None and peg.cs_disjoint(cs, peg.cs_in(dangerous)):
                c.ob("C04.taint", s.where, "hole %s in a string literal" % hk, True, "the parser restricts this value to %s, disjoint from the dangerous set %s" % (peg.cs_show(cs), sorted(dangerous)))
                continue
            wit = witness_for(s.where, hk)
            c.ob(
                "C04.taint",
                s.where,
                "hole %s in a string literal" % hk,
                False,
                "user text %s is interpolated raw inside a %s in `%s`; a value containing one of %s changes the structure of the program%s" % (srcs, "format template" if tpl else "string literal", emit.show_parts(s.parts)[:90], sorted(dangerous), " (wrong sanitiser: %s)" % callee if callee else ""),
                witness=wit,
            )
    # manager-returned names are clean (they flow, unquoted, into the policy body)
    for M in codegen.MANAGERS:
        for meth in ("get_printer", "get_file_printer", "get_matcher"):
            k = codegen.mgr_key(facts, M, meth)
            dirty = []
            for st, v in codegen.run(facts, k, codegen.AFF()):
                if isinstance(v, dict):
                    dirty += emit.tainted(v)
            c.ob("C04.taint", k, "returned identifier carries no user text", not dirty, "returned name derives from %s" % dirty if dirty else "only constants and counter values", nontrivial=False)
    # two top-level forms
    forms = sk.get("top_forms") if sk else None
    c.ob("C04.balanced", "CompiledExpression::scheme", "exactly two top-level forms", forms is not None and len(forms) == 2 and forms[0].startswith("(use-modules") and forms[1].startswith("(let*"), "top-level forms: %s" % ([f[:30] for f in forms] if forms else None))
    c.floor("emission sites", len(sites), 80)
    c.floor("holes examined", nholes, 60)
    fx = emit.scan_scheme([("c", '(streq? "'), ("h", emit.H("payload", "x", enum="Test", variant="Name", idx=0, ty="String")), ("c", '" s)')])
    # ---- structure: "changing the characters of a user string never changes the structure of the program around it"
    seen_sp, hits_sp = structure_predicates_read_text(facts)
    c.ob("C04.structure", "mode predicates", "the predicates that choose the shape of the program do not read the user's text", bool(seen_sp) and not hits_sp, "examined %s; text payloads used: %s" % (seen_sp, hits_sp or "none (they look at which nodes the tree has, never at a string's characters)"), witness="-printf 'ab<LF>' vs -printf 'abc'" if hits_sp else None)
    c.control("C04.taint", any(ins and emit.tainted(h) for h, ins, _, _ in fx["holes"]), "fixture (streq? \"{String payload}\" s) is reported as a raw tainted hole inside a literal")
    fx2 = emit.scan_scheme([("c", "(and (a) (b)")])
    c.control("C04.balanced", fx2["depth_end"] != 0, "fixture with a dropped ')' is reported as unbalanced")


def structure_predicates_read_text(facts):
    """The predicates that choose the *shape* of the program (which manager, whether the implicit print is added) —
    Expression::complex_frames, Expression::action and every crate function they call — may look at which nodes a tree has, not at
    the characters of the user's strings: a payload of a text type (String, &str, char, Option of those) bound in one of their
    patterns must not be used.  -> (functions examined, [(function, variable, where it is used)])"""
    roots = [k for k in ("Expression::complex_frames", "Expression::action") if k in facts.fns]
    seen, todo = [], list(roots)
    while todo:
        k = todo.pop()
        if k in seen or k not in facts.fns or facts.fns[k].test:
            continue
        seen.append(k)
        fn = facts.fns[k]
        for n in find_all(fn.body, lambda n: n.get("k") in ("call", "mcall")):
            if n["k"] == "mcall":
                for k2, f2 in facts.fns.items():
                    if f2.name == n["m"] and f2.impl is not None and not f2.test and not (f2.impl.get("trait") and norm_ty(f2.impl["trait"]).split("::")[-1] in ("TargetScheme", "SchemeManager")):
                        todo.append(k2)
            elif n["f"].get("k") == "path":
                nm = n["f"]["segs"][-1]
                for k2, f2 in facts.fns.items():
                    if f2.name == nm and not f2.test and (f2.impl is None or (len(n["f"]["segs"]) >= 2 and norm_ty(f2.impl["self_ty"]).split("<")[0] == n["f"]["segs"][-2])):
                        todo.append(k2)
    TEXT = re.compile(r"^(&?(mut)?\s*)?(String|str|char|Option<&?(String|str|char)>|&'\w+\s*str|Cow<.*str>)$")
    hits = []
    for k in seen:
        fn = facts.fns[k]
        for pat_holder in find_all(fn.body, lambda n: isinstance(n, dict) and n.get("k") in ("match", "if", "let", "letexpr", "macro")):
            pairs = []
            if pat_holder["k"] == "match":
                pairs = [(arm["pat"], [arm["body"], arm.get("guard")]) for arm in pat_holder["arms"]]
            elif pat_holder["k"] == "if" and isinstance(pat_holder.get("cond"), dict) and pat_holder["cond"].get("k") == "letexpr":
                pairs = [(pat_holder["cond"]["pat"], [pat_holder["then"]])]
            elif pat_holder["k"] == "macro" and pat_holder.get("name") == "matches" and "pat" in pat_holder:
                pairs = [(pat_holder["pat"], [pat_holder.get("guard")])]
            for pat, scopes in pairs:
                for ts in find_all(pat, lambda n: isinstance(n, dict) and n.get("k") == "tstruct" and len(n.get("segs", [])) >= 2):
                    en, vn = ts["segs"][-2], ts["segs"][-1]
                    if en == "Self" and fn.impl is not None:
                        en = norm_ty(fn.impl["self_ty"]).split("<")[0]
                    if en not in facts.enums:
                        continue
                    ftys = facts.variant_fields(en, vn)
                    for i_, el in enumerate(ts.get("elems", [])):
                        q = el
                        while isinstance(q, dict) and q.get("k") in ("ref", "typed"):
                            q = q["pat"]
                        if isinstance(q, dict) and q.get("k") == "ident" and i_ < len(ftys) and TEXT.match(norm_ty(ftys[i_] or "")):
                            uses = [u for sc_ in scopes if sc_ is not None for u in find_all(sc_, lambda n: isinstance(n, dict) and n.get("k") == "path" and n.get("segs") == [q["name"]])]
                            if uses:
                                hits.append((k, "%s::%s.%d as `%s`" % (en, vn, i_, q["name"]), src(uses[0])))
    return seen, hits


def find_char_from_payload(h, depth=0):
    """char::from_u32(<user number>) — a character chosen by the user."""
    if not isinstance(h, dict) or depth > 8:
        return None
    if h.get("v") == "str":
        # the character rendered as text (`c.to_string()`, `c.encode_utf8(..)`, `format!("{c}")`)
        for p_ in h.get("parts", []):
            if p_[0] == "h":
                r = find_char_from_payload(p_[1], depth + 1)
                if r:
                    return r
        return None
    if h.get("v") in ("some", "ok") and isinstance(h.get("x"), dict):
        return find_char_from_payload(h["x"], depth + 1)
    if h.get("kind") == "call" and (h.get("callee") or "").startswith("char::from"):
        for a in h.get("args", []):
            if "$" in emit.canon(a):
                return emit.canon(h)
    for k in ("recv", "of"):
        r = find_char_from_payload(h.get(k), depth + 1) if isinstance(h.get(k), dict) else None
        if r:
            return r
    for k in ("args", "operands"):
        for a in h.get(k, []) or []:
            r = find_char_from_payload(a, depth + 1)
            if r:
                return r
    return None


def witness_for(where, hk):
    if "Pool" in hk:
        return "-pool 'a\"b'"
    if "XattrMatch" in hk:
        return "-xattr-match 'a\"b' v"
    if "Xattr" in hk:
        return "-xattr 'a\"b'"
    if "Literal" in hk:
        return "-printf 'x~ay'  /  -printf 'a\"b'"
    if "Formatted" in hk:
        return "-printf '%A\"'"
    if "from_u32" in hk:
        return "-printf '\\042'  (a double quote) / '\\176' (a tilde)"
    if "get_matcher" in where:
        return "-name 'a\"b'"
    if "get_file_printer" in where:
        return "-fprint 'a\"b'"
    if "scheme" in where:
        return "scheme(\"/dev/a\\\"b\")"
    return None
