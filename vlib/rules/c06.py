"""C06 — equivalent spellings give identical results: one blank set everywhere, operator synonyms,
redundant parentheses, quoting styles, empty input ≡ -true."""
import json
import re
import os

from .. import facts as F
from .. import peg, rx, kw, args
from ..anchors import Anchors
from ..facts import src, find_all
from ..args import unwrap, flat_alts, single_body
from . import c01, c05


def absorbs(g, ir, ch, depth=0):
    """Could a successful match of `ir` be *extended* by / fail because of a directly following character ch?
    Returns True when ch right after a match is NOT guaranteed to be left alone (unsound to assume)."""
    ir = unwrap(ir)
    t = ir["t"]
    if depth > 30:
        return True
    if t == "lit" or t == "eof":
        return False
    if t == "set":
        return (ir["max"] is None or ir["max"] > ir["min"]) and peg.cs_has(ir["cs"], ch)
    if t == "peek":
        return not c05.may_succeed_before(g, ir["p"], ch)
    if t == "until":
        return False
    if t == "seq":
        items = ir["items"]
        if not items:
            return False
        if absorbs(g, items[-1]["p"], ch, depth + 1):
            return True
        if g.nullable(items[-1]["p"]) and len(items) > 1:
            return absorbs(g, dict(ir, items=items[:-1]), ch, depth + 1)
        return False
    if t == "alt":
        for a in ir["alts"]:
            if not c05.never_succeeds(g, a):
                if absorbs(g, a, ch, depth + 1):
                    return True
                continue
            # an alternative that never succeeds exists to *reject*: `trigger.and_then(cut_err(fail))`. Choice is ordered, so
            # if its trigger can run into the following character, a valid argument followed by ch is turned into an error
            a0 = unwrap(a)
            trig = None
            if a0["t"] == "andthen":
                trig = unwrap(a0["outer"])
            elif a0["t"] == "seq" and len(a0["items"]) >= 2:
                trig = dict(a0, items=a0["items"][:-1])
            if trig is not None and trig["t"] == "seq" and len(trig["items"]) >= 2:
                if c05.may_succeed_before(g, trig["items"][-1]["p"], ch):
                    return True
            # the trigger is one run of characters (`take_while(2.., letters)`, `take_till(2.., stops)`): a run that may contain ch
            # reaches across a valid argument and the ch behind it — `-type f<TAB>-print` is then one long "invalid type"
            trun = unwrap(trig) if trig is not None else None
            if trun is not None and trun["t"] == "set" and (trun["max"] is None or trun["max"] > 1) and peg.cs_has(trun["cs"], ch):
                return True
        return False
    if t in ("map", "value", "trymap", "fold", "verify"):
        return absorbs(g, ir["p"], ch, depth + 1)
    if t == "andthen":
        return absorbs(g, ir["outer"], ch, depth + 1)
    if t == "sep":
        return absorbs(g, ir["p"], ch, depth + 1) or c05.may_succeed_before(g, ir["sep"], ch)
    if t == "rep":
        return c05.may_succeed_before(g, ir["p"], ch)
    if t == "ref":
        fb = g.deref(ir)
        b = single_body(fb)
        if b is not None:
            return absorbs(g, b, ch, depth + 1)
        seqs = g.body_seq(fb)
        return (not seqs) or absorbs(g, seqs[-1], ch, depth + 1)
    return True


def run(c, facts, tier):
    b = peg.Builder(facts)
    g = peg.Grammar(b)
    an = Anchors(facts, b)
    from .. import glue

    glue.obligations(c, facts, b, "C06")
    tokfn, lexfn, inner = an.role("token"), an.role("lex"), an.role("parse_inner")
    scope = b.scope(facts.fn(tokfn).module)
    spec = json.load(open(c01.SPEC))
    c.trusted = ["winnow 0.6.7 semantics in vlib/peg.py (multispace* blank set read from the pinned winnow source)", "E1 extractor"]
    c.explanation = (
        "Each insignificant-spelling class of the statement is one structural rule on the combinator IR: a single blank set at every junction kind "
        "(and word terminators ⊇ blank ∪ {')'}), synonyms sharing one alternative/value, parentheses returning the inner value with ')' never absorbed by an "
        "argument, the three quoting forms returning the raw inner slice, and the empty-input branch. Rules are per junction kind (finitely many), hence hold for every expression and gap."
    )
    c.decided = ["blank kinds and amounts between words", "-a/-and/implicit, -o/-or", "redundant parentheses with or without inner blanks", "quoting style", "empty input ≡ -true"]
    blank = peg.named_set("multispace")
    alts = kw.alternatives(g, tokfn)
    # redundant parentheses turn a leading option into a misplaced one (`-threads 4 -depth` / `-threads 4 ( -depth )`): that the
    # options come out the same is what the C13 rules decide about the two passes
    from .. import report as _rep6

    _rep6.require(c, facts, "c13", "C06.parens", inner, "options inside redundant parentheses are registered like leading ones", lambda o: o["rule"] in ("C13.misplaced", "C13.last-wins", "C13.leading", "C13.total"), "an option written inside (redundant) parentheses goes through the misplaced-option pass; identical options for both spellings is decided by the C13 rules")

    # ------------------------------------------------------------ C06.blank-set (i): separators
    seps = []  # (site, description, node)

    def collect_sets(site, ir, follow=False):
        def w(n):
            if n["t"] == "set" and n["cs"][0] == "in" and (n["cs"][1] & frozenset(" \t\r\n\x0b\x0c")):
                seps.append((site, n))

        g.walk(ir, w, follow=follow)

    seen_sites = set()
    for a in alts:
        for r in a.rest:
            # only walk nodes written in this alternative (do not descend into argument parsers)
            for x in kw.flatten_rest(g, [r]):
                if x["n"]["t"] in ("set", "alt"):
                    collect_sets(a.site + " : " + (a.lit or "?"), x["n"])
    collect_sets(lexfn, b.fn_ir(lexfn))
    # the leading-options pass in the inner parse function
    infn = facts.fn(inner)
    lead = leading_pass(b, infn)
    if lead is not None:
        collect_sets(inner, lead)
    nsep = 0
    for site, n in seps:
        nsep += 1
        same = peg.cs_subset(n["cs"], blank) and peg.cs_subset(blank, n["cs"])
        c.ob(
            "C06.blank-set",
            site,
            "separator %s" % (n.get("name") or peg.cs_show(n["cs"])),
            same,
            "separator accepts %s; the blank set between tokens is %s — a blank kind outside the common set is a separator at one junction and an error (or word content) at another" % (peg.cs_show(n["cs"]), peg.cs_show(blank)),
            nontrivial=False,
        )
    c.analysed["separator_sites"] = nsep
    # (ii) word terminators ⊇ blank ∪ {')'}
    words = []
    for key, fn in facts.fns.items():
        if fn.test or "Parser<" not in fn.node["output"]:
            continue
        if [n for n, _ in fn.params]:
            continue  # a parser *builder* (generic `unary(..)`): expanded at each call site, not a word parser
        fb = b.fn_ir(key)
        if fb.get("returns_parser"):
            for a in flat_alts(fb["tail"]):
                a = unwrap(a)
                if a["t"] == "set":
                    words.append((key, a))
    need = peg.cs_union(blank, peg.cs_in(")"))
    for key, a in words:
        term = peg.cs_compl(a["cs"])
        missing = peg.cs_inter(need, a["cs"])
        ok = peg.cs_empty(missing)
        wit = None
        if not ok:
            ch = sorted(missing[1])[0]
            wit = "-name foo%s-print  (the %r is swallowed into the name)" % (ch, ch)
        c.ob(
            "C06.blank-set",
            key,
            "unquoted-word terminators ⊇ blank ∪ {')'}",
            ok,
            "an unquoted word stops at %s; blanks/parenthesis it does NOT stop at: %s" % (peg.cs_show(term), peg.cs_show(missing)),
            witness=wit,
        )
    c.floor("separator sites", nsep, 20)
    c.floor("unquoted-word parsers", len(words), 1)

    # ------------------------------------------------------------ C06.synonyms
    bylit = {a.lit: a for a in alts if a.lit}
    for x, y in (("-a", "-and"), ("-o", "-or")):
        ax, ay = bylit.get(x), bylit.get(y)
        ok = ax is not None and ay is not None and kw.ctor_of_transform(ax, scope) == kw.ctor_of_transform(ay, scope) and [peg.show(r["n"]) for r in ax.rest] == [peg.show(r["n"]) for r in ay.rest]
        c.ob("C06.synonyms", tokfn, "%s ≡ %s" % (x, y), ok, "both spellings yield %s with the same follow guard" % (kw.ctor_of_transform(ax, scope) if ax else None) if ok else "spellings differ: %s vs %s" % (ax, ay))
    # implicit AND and explicit AND feed the same fold
    entry = an.role("prec_entry")
    lv_and = None
    for key, fn in facts.fns.items():
        if fn.module == facts.fn(entry).module and not fn.test:
            info, _ = c01.level_shape(b, g, b.fn_ir(key), scope)
            if info and info["implicit"]:
                lv_and = (key, info)
    ok = lv_and is not None and len(lv_and[1]["explicit"]) == 1 and lv_and[1]["explicit"][0][0] == ("And",) and lv_and[1]["implicit"] == [lv_and[1]["explicit"][0][1]]
    c.ob("C06.synonyms", lv_and[0] if lv_and else entry, "juxtaposition ≡ -a", ok, "explicit and implicit AND are alternatives of one repetition folded by one step (%s)" % (lv_and[1].get("step_ctor") if lv_and else None))

    # ------------------------------------------------------------ C06.parens
    lp = bylit.get("(")
    c.ob("C06.parens", tokfn, "'(' needs no following blank", lp is not None and all(g.nullable(r["n"]) for r in lp.rest), "follow of '(' : %s" % ([peg.show(r["n"]) for r in lp.rest] if lp else None))
    rp = bylit.get(")")
    c.ob("C06.parens", tokfn, "')' needs no following blank", rp is not None and all(g.nullable(r["n"]) for r in rp.rest), "follow of ')' : %s" % ([peg.show(r["n"]) for r in rp.rest] if rp else None))
    nprim = 0
    for a in alts:
        if a.lit is None:
            continue
        ctor = kw.ctor_of_transform(a, scope)
        if ctor is None or ctor.startswith("Token::"):
            continue
        nprim += 1
        seq_ir = {"t": "seq", "l": None, "items": [{"p": {"t": "lit", "l": None, "s": a.lit}, "keep": True}] + [{"p": r["n"], "keep": r["keep"]} for r in a.rest]}
        if c05.never_succeeds(g, seq_ir):
            c.ob("C06.parens", a.site, "%s directly followed by ')'" % a.lit, True, "%r is always rejected with an error" % a.lit, nontrivial=False)
            continue
        bad = absorbs(g, seq_ir, ")")
        c.ob(
            "C06.parens",
            a.site,
            "%s directly followed by ')'" % a.lit,
            not bad,
            "a ')' written without a blank after %r%s is %s" % (a.lit, " and its argument" if a.rest else "", "left for the parenthesis token" if not bad else "absorbed by the argument or rejected by a guard: '( x )' and '(x)' would differ"),
            witness="(%s%s)" % (a.lit, " …" if a.rest else "") if bad else None,
            nontrivial=False,
        )
        # every kind of blank ends the primary the same way
        badb = [repr(ch) for ch in " \t\r\n" if absorbs(g, seq_ir, ch)]
        c.ob(
            "C06.blank-set",
            a.site,
            "%s followed by any kind of blank" % a.lit,
            not badb,
            "after %r%s every blank (space, tab, CR, LF) is left for the separator" % (a.lit, " and its argument" if a.rest else "") if not badb else "after %r%s the blank kind(s) %s are taken into the argument or make it an error, while the others separate: spellings that differ only in the kind of blank would differ" % (a.lit, " and its argument" if a.rest else "", ", ".join(badb)),
            witness="%s …\\n-print" % a.lit if badb else None,
            nontrivial=False,
        )
    c.floor("primaries checked against ')'", nprim, 56)
    # parens node-free: shared with C01.parens (recomputed here on the same IR)
    pfn = None
    for key, fn in facts.fns.items():
        if fn.module == facts.fn(entry).module and not fn.test:
            body = single_body(b.fn_ir(key))
            if body is not None and body["t"] == "seq" and len(body["items"]) == 3 and unwrap(body["items"][0]["p"])["t"] == "tokset" and unwrap(body["items"][0]["p"])["toks"] == ["LParen"]:
                pfn = (key, body)
    okp = None
    det = "parenthesis parser not found"
    if pfn:
        n = b.fn_ir(pfn[0])["tail"]
        wr = []
        while n["t"] in ("ctx", "cut", "map", "value", "trymap"):
            if n["t"] != "ctx" and n["t"] != "cut":
                wr.append(n["t"])
            n = n["p"]
        okp = not wr and [i["keep"] for i in pfn[1]["items"]] == [False, True, False]
        det = "parens keeps only the inner value and applies no map: %s" % okp
    c.ob("C06.parens", pfn[0] if pfn else entry, "parentheses return the inner expression unchanged", okp, det)

    # ------------------------------------------------------------ C06.quoting
    for key, fn in facts.fns.items():
        if fn.test or "Parser<" not in fn.node["output"]:
            continue
        if [n for n, _ in fn.params] or F.generic_params(fn.node.get("generics")) or fn.node.get("self") is not None:
            continue  # a parser builder (value or type parameters), expanded at its call sites
        fb = b.fn_ir(key)
        if not fb.get("returns_parser"):
            continue
        # a word parser yields a slice of the input: `impl Parser<&str, &str, _>` (a helper returning a parser of another
        # value — `fn invalid() -> impl Parser<&str, FileType, _>` — is no word parser)
        outs = F.split_generics(re.sub(r"^.*?Parser<", "", F.norm_ty(fn.node["output"]))[:-1]) if "Parser<" in F.norm_ty(fn.node["output"]) else []
        if len(outs) >= 2 and not re.fullmatch(r"&('\w+)?str", outs[1].strip()):
            continue
        forms = []
        raw_ok = True
        n = fb["tail"]
        while n["t"] in ("ctx", "cut"):
            n = n["p"]
        if n["t"] != "alt":
            c.ob("C06.quoting", key, "word parser is a choice of quoting forms", None, "shape: %s" % peg.show(n))
            continue
        for a in n["alts"]:
            a = unwrap(a)
            if a["t"] == "seq" and len(a["items"]) == 3:
                q0, mid, q1 = [unwrap(i["p"]) for i in a["items"]]
                keeps = [i["keep"] for i in a["items"]]
                okf = q0["t"] == "lit" and q1["t"] == "lit" and q0["s"] == q1["s"] and mid["t"] == "until" and mid["s"] == q0["s"] and keeps == [False, True, False]
                forms.append(("quoted %s" % q0.get("s"), okf))
            elif a["t"] == "set":
                forms.append(("bare", a["min"] >= 1 and a["max"] is None))
                # a bare word is every character up to a blank or a ')': a larger stop set makes `-name a(b` and `-name 'a(b'`
                # different inputs, a smaller one makes a blank kind or ')' part of the word
                want = peg.cs_compl(peg.cs_union(peg.named_set("multispace"), peg.cs_in(")")))
                same = peg.cs_subset(a["cs"], want) and peg.cs_subset(want, a["cs"])
                extra_stops = peg.cs_inter(peg.cs_compl(a["cs"]), want)
                c.ob(
                    "C06.quoting",
                    key,
                    "a bare word runs up to the next blank or ')'",
                    same,
                    "bare-word characters: %s; required: everything except blanks and ')'%s" % (peg.cs_show(a["cs"]), "" if same else ("; additionally stops at %s: quoting would change the value" % peg.cs_show(extra_stops) if not peg.cs_empty(extra_stops) else "; some blank or ')' is taken into the word")),
                    witness=("-name a%sb  versus  -name 'a%sb'" % ((peg.cs_example(extra_stops),) * 2)) if not same and not peg.cs_empty(extra_stops) else None,
                )
            else:
                forms.append((peg.show(a), False))
                raw_ok = False
        kinds = sorted(f for f, _ in forms)
        c.ob(
            "C06.quoting",
            key,
            "three forms, each returning the raw inner slice",
            raw_ok and all(o for _, o in forms) and kinds == ["bare", "quoted \"", "quoted '"],
            "forms: %s; no form applies a map (the value is the text between the delimiters / the bare run itself)" % forms,
        )
    sfn = "<String as Parseable>::parse"
    if sfn in facts.fns:
        body = single_body(b.fn_ir(sfn))
        ok = None
        det = "shape not recognised"
        if body is not None:
            maps = []
            n = body
            while n["t"] in ("map", "ctx", "cut", "value", "trymap"):
                if n["t"] in ("map", "value", "trymap"):
                    maps.append(n)
                n = n["p"]
            ok = n["t"] == "ref" and b.fn_ir(n["fn"]).get("returns_parser") and len(maps) == 1 and maps[0]["t"] == "map" and rx.path_str(maps[0]["f"]) in ("String::from", "str::to_string", "ToString::to_string", "ToOwned::to_owned", "str::to_owned")
            det = "String::parse = %s" % peg.show(body)
        c.ob("C06.quoting", sfn, "a word becomes a String by plain copy", ok, det)
    else:
        c.ob("C06.quoting", sfn, "a word becomes a String by plain copy", None, "String parser not found")

    # ------------------------------------------------------------ C06.empty
    empty_rule(c, facts, b, g, infn, lead)


_INNER = {}


def inner_summary(b, infn):
    from .. import inner

    k = (id(b), infn.key)
    if k not in _INNER:
        _INNER[k] = inner.summarise(b.facts, b, peg.Grammar(b), infn.key)
    return _INNER[k]


def leading_pass(b, infn):
    """The first parser applied to the raw input in the inner parse function, whatever the spelling (UFCS, method form,
    through a helper function, in a `for` header); helper functions that only wrap one parser expression are seen through."""
    s = inner_summary(b, infn)
    ps = s.parses()
    if not ps:
        return None
    return peg.Grammar(b).open(ps[0]["ir"])


def empty_rule(c, facts, b, g, infn, lead):
    inp = b._input_name(infn)
    from .. import innerval

    s0 = inner_summary(b, infn)
    tests0 = [e for e in s0.events if e["e"] == "isempty"]
    summary_reads_it = bool(tests0) and any(e.get("node") is not None for e in tests0) and not s0.unknown
    EV = None
    if not summary_reads_it:
        # the statements are not of the recognised shape: the inner function is evaluated on scenarios (vlib/innerval.py)
        EV, _why = innerval.cached(facts, b, Anchors(facts, b))
    if EV is not None:
        dom = False
        if lead is not None:
            n = unwrap(lead)
            if n["t"] == "seq" and n["items"]:
                first = unwrap(n["items"][0]["p"])
                dom = first["t"] == "set" and first["min"] == 0 and first["max"] is None and first["cs"] == peg.named_set("multispace")
        c.ob("C06.empty", infn.key, "blank* is skipped before the emptiness test", dom and EV["ok_order"], "the first parser applied to the input %s with multispace0; the emptiness test comes after it: %s — %s" % ("starts" if dom else "does NOT start", EV["ok_order"], innerval.how(EV)), witness="'   ' (blank-only input)" if not dom else None)
        c.ob("C06.empty", infn.key, "empty input becomes exactly [-true]", EV["ok_empty"], innerval.how(EV) + (" — " + EV["detail"] if not EV["ok_empty"] else ""))
        return
    s = inner_summary(b, infn)
    tests = [e for e in s.events if e["e"] == "isempty"]
    # the test may sit in the inner function or in a helper it was split into: the summary records the node
    ifs = [e["node"] for e in tests if e.get("node") is not None]
    if not tests or not ifs:
        c.ob("C06.empty", infn.key, "empty input ≡ -true", None, "no `if input.is_empty()` found in %s" % infn.key)
        return
    ifnode = ifs[0]
    # a blank* skip on the same input dominates it
    dom = False
    if lead is not None:
        n = unwrap(lead)
        if n["t"] == "seq" and n["items"]:
            first = unwrap(n["items"][0]["p"])
            dom = first["t"] == "set" and first["min"] == 0 and first["max"] is None and first["cs"] == peg.named_set("multispace")
    before = [e for e in s.events if e["e"] == "parse" and e["id"] < tests[0]["id"]]
    c.ob(
        "C06.empty",
        infn.key,
        "blank* is skipped before the emptiness test",
        dom and bool(before) and not s.unknown,
        "the first parser applied to the input %s with multispace0; it runs before `input.is_empty()`: %s%s" % ("starts" if dom else "does NOT start", bool(before), ("; statements not understood: %s" % s.unknown) if s.unknown else ""),
        witness="'   ' (blank-only input)" if not dom else None,
    )
    then = rx.peel(ifnode["then"])
    if then["k"] == "block" and len(then["stmts"]) == 1 and then["stmts"][0]["k"] == "expr":
        then = rx.peel(then["stmts"][0]["e"])
    if then["k"] == "return" and then["e"] is not None:
        then = rx.peel(then["e"])  # `if input.is_empty() { return Ok(vec![..]); }`
    if then["k"] == "call" and rx.path_str(then["f"]) == "Ok" and len(then["args"]) == 1:
        then = rx.peel(then["args"][0])
    ok = then["k"] == "macro" and then["name"] == "vec" and len(then.get("args", [])) == 1 and src(then["args"][0]) in ("Token::Test(Test::True)",)
    c.ob("C06.empty", infn.key, "empty input becomes exactly [-true]", ok, "true-branch builds %s" % src(then))
