"""Value semantics of the combinator IR: what a parser *returns* for a given way of matching.

`value(node, ctx)` computes the parser's output when the leaves (character runs, literals) matched what `ctx.leaf(node)` says,
alternations took the branch `ctx.choice(node)` and repetitions matched the elements `ctx.rep(node)` — with every `.map`,
`.value`, `.try_map` closure or function on the way *evaluated* by vlib/probe.py.  Texts may be concrete strings or lists of
unknown characters; element lists may hold unknown elements: the result is then an expression tree over these unknowns.

`run_parser_fn` evaluates a whole parser function written in imperative style (let-bound `.parse_next(input)?` steps followed
by ordinary code) by handing each `parse_next` the value of its parser expression."""
from . import probe as P
from .facts import src


class Ctx:
    """Defaults: refuse everything (the caller overrides what it knows)."""

    def __init__(self, facts, builder, module=()):
        self.facts = facts
        self.b = builder
        self.module = tuple(module)
        self.probe = P.Probe(facts, None, self.module)
        self.index = {}
        self.env = {}  # value-level `let`s of the parser function (closures, constants) the maps may refer to

    def bind_lets(self, lets):
        """`let name = <value expression>;` statements standing in front of the parser expression"""
        for st in lets or []:
            if st.get("k") != "let" or st.get("init") is None or st["pat"].get("k") not in ("ident", "typed"):
                raise P.NoEval("statement in front of the parser expression")
            b_ = self.probe.pmatch(st["pat"], self.probe.ev(st["init"], self.env), self.env)
            if b_ is None:
                raise P.NoEval("let pattern")
            self.env.update(b_)
        return self

    def leaf(self, node):
        raise P.NoEval("no text given for %s" % node["t"])

    def choice(self, node):
        raise P.NoEval("no branch chosen for an alternation")

    def rep(self, node):
        raise P.NoEval("no elements given for a repetition")

    def iterations(self, node):
        """n: evaluate the repeated parser n times (ctx.index[id(node)] = round); None: ask rep() for the element values"""
        return None

    def ref(self, node):
        raise P.NoEval("no value given for %s" % node.get("fn"))

    def fn(self, f):
        pr = self.probe
        return pr.ev(f, self.env)


def value(node, ctx, depth=0):
    if depth > 60:
        raise P.NoEval("depth")
    t = node["t"]
    pr = ctx.probe
    if t in ("set", "lit", "until", "any", "recognize", "tokset"):
        v = ctx.leaf(node)
        if t in ("set", "tokset") and node.get("vmap") is not None:
            old = pr.module
            pr.module = tuple(node.get("vmod") or old)
            try:
                r = pr.apply(pr.ev(node["vmap"], {}), [v])
            finally:
                pr.module = old
            if r is None:
                raise P.NoEval("verify_map refuses the character")
            return r[1]
        return v
    if t == "verify" and node.get("vmap"):
        # verify_map: the value is what the function yields inside Some; where it yields None the parser fails
        v = value(node["p"], ctx, depth + 1)
        r = pr.apply(ctx.fn(node["f"]), [v])
        if isinstance(r, tuple) and len(r) == 2 and r[0] == "some":
            return r[1]
        if isinstance(r, P.Opq):
            return P.Opq("%r?" % r, ("mcall", "unwrap", r, []))
        raise P.NoEval("verify_map refuses the value")
    if t in ("ctx", "cut", "peek", "verify"):
        return value(node["p"], ctx, depth + 1)
    if t == "seq":
        vals = [value(i["p"], ctx, depth + 1) for i in node["items"] if i["keep"] or node.get("tuple")]
        kept = [v for v, i in zip(vals, [i for i in node["items"] if i["keep"] or node.get("tuple")])]
        if node.get("tuple") or len(kept) != 1:
            return kept
        return kept[0]
    if t == "map":
        v = value(node["p"], ctx, depth + 1)
        return pr.apply(ctx.fn(node["f"]), [v])
    if t == "value":
        return pr.ev(node["v"], {}) if node.get("v") is not None else ()
    if t == "trymap":
        v = value(node["p"], ctx, depth + 1)
        r = pr.apply(ctx.fn(node["f"]), [v])
        if isinstance(r, tuple) and r and r[0] in ("ok", "some"):
            return r[1]
        if isinstance(r, P.Opq):
            return P.Opq("%r?" % r, ("mcall", "unwrap", r, []))
        raise P.NoEval("try_map refuses the text")
    if t == "alt":
        return value(node["alts"][ctx.choice(node)], ctx, depth + 1)
    if t in ("sep", "rep", "reptill"):
        n = ctx.iterations(node) if t != "reptill" else None
        if n is None:
            return ctx.rep(node)
        out = []
        for i in range(n):
            ctx.index[id(node)] = i
            out.append(value(node["p"], ctx, depth + 1))
        ctx.index.pop(id(node), None)
        return out
    if t == "fold":
        acc = pr.apply(ctx.fn(node["init"]), []) if node["init"].get("k") in ("closure", "path") else pr.ev(node["init"], {})
        step = ctx.fn(node["step"])
        for x in value(node["p"], ctx, depth + 1):
            acc = pr.apply(step, [acc, x])
        return acc
    if t == "ref":
        try:
            return ctx.ref(node)
        except P.NoEval:
            # a helper parser function that only names a parser expression stands for that expression
            from .args import single_body
            from . import peg

            fb = peg.Grammar(ctx.b).deref(node)
            sb = fb["tail"] if fb.get("t") == "fnbody" and not fb["steps"] and not fb["unknown"] and not fb["lets"] and fb.get("tail") is not None else None
            if sb is None or node.get("extra"):
                raise
            old = pr.module
            pr.module = tuple(ctx.facts.fns[node["fn"]].module)
            try:
                return value(sb, ctx, depth + 1)
            finally:
                pr.module = old
    if t == "andthen":
        return value(node["inner"], ctx, depth + 1)
    raise P.NoEval("no value semantics for %s" % t)


def run_parser_fn(fn, ctx, extra_args=()):
    """Evaluate `fn(input, ..)` with every `<parser>.parse_next(input)` replaced by value(<its IR>, ctx)."""
    pr = ctx.probe
    inp = P.Opq("input")
    inp_name = ctx.b._input_name(fn)
    env = {"__fn": fn, "__input": inp_name, "__tsubst": {}, "__module": fn.module}

    def parse_next(pr_, e, env_):
        if len(e["args"]) == 1 and pr_.ev(e["args"][0], env_) is inp:
            ir = ctx.b.pe(e["recv"], env)
            return ("ok", value(ir, ctx))
        return NotImplemented

    old = dict(pr.mhooks)
    pr.mhooks["parse_next"] = parse_next
    try:
        args = []
        for n_, ty in fn.params:
            args.append(inp if n_ == inp_name else (extra_args[len(args) - 1] if len(args) - 1 < len(extra_args) else P.Opq(n_ or "arg")))
        return pr.invoke(fn, None, args)
    finally:
        pr.mhooks = old


class SymCtx(Ctx):
    """Every character run matched an unknown text (three unknown characters, one for a single-character parser), every
    literal itself; alternations take the branch given in `pick` (default: the first); the alternations met are recorded so
    that the caller can enumerate the branches.  `origin` maps each unknown to the set node it stands for."""

    def __init__(self, facts, builder, module=(), pick=None):
        Ctx.__init__(self, facts, builder, module)
        self.pick = dict(pick or {})
        self.alts = []
        self.origin = {}

    def leaf(self, node):
        if node["t"] == "lit":
            return node["s"]
        if node["t"] == "set":
            one = node.get("max") == 1
            xs = [P.Opq("char%d" % i) for i in range(1 if one else 3)]
            for x in xs:
                self.origin[id(x)] = node
            return xs[0] if one else xs
        raise P.NoEval("no text for %s" % node["t"])

    def choice(self, node):
        if not any(n is node for n in self.alts):
            self.alts.append(node)
        return self.pick.get(id(node), 0)

    def ref(self, node):
        raise P.NoEval("value of %s" % node.get("fn"))
