"""Value semantics of the crate's own types, as far as the properties lean on them.

* `key_types(facts)`: the crate types used as keys of hash/b-tree collections (resolved through type aliases, tuples and
  wrappers), with the state of their `PartialEq` / `Eq` / `Hash` (/ `Ord`) impls.  A key whose equality or hash is hand-written may
  ignore a field (two different requests share one entry) or disagree with each other (a lookup that succeeds or not depending on
  the hasher's seed).  Derived impls compare and hash every field.
* `clone_problems(facts, types)`: `Clone` / `ToOwned` of the listed types is derived (a faithful copy); a hand-written impl is
  reported with its name — the parser clones tokens and sub-trees on its way out (`init.clone()`, `.to_owned()`)."""
import re

from . import facts as F
from .facts import norm_ty

AST_TYPES = ["Expression", "Operator", "Test", "Action", "Comparison", "Size", "TimeSpec", "FileType", "PermCheck", "Permission", "FormatElement", "FormatField", "FormatSpecial", "GlobalOption", "PositionalOption", "Token"]


def _local_type(facts, name):
    return facts.enums.get(name) or facts.structs.get(name)


def _manual(facts, tname, traits):
    return sorted({norm_ty(i["trait"]).split("::")[-1].split("<")[0] for _, _, i in facts.impls if norm_ty(i["self_ty"]).split("<")[0] == tname and i["trait"] and norm_ty(i["trait"]).split("::")[-1].split("<")[0] in traits})


def clone_problems(facts, types=None):
    bad = []
    for tname in types or AST_TYPES:
        d_ = _local_type(facts, tname)
        if d_ is None:
            continue
        man = _manual(facts, tname, ("Clone", "ToOwned"))
        if "Clone" not in facts.derives(d_) or man:
            bad.append("%s (derives %s, hand-written %s)" % (tname, facts.derives(d_), man))
    return bad


def key_types(facts):
    """{type name: {"where": [field/alias it keys], "derived": [...], "manual": [...]}} for crate types inside the key position of a
    HashMap / HashSet / BTreeMap / BTreeSet field, local or alias anywhere in the crate's struct definitions."""
    out = {}

    def names_in(ty):
        return [n for n in re.findall(r"[A-Z][A-Za-z0-9_]*", ty or "") if _local_type(facts, n) is not None or n in facts.types]

    def add(keyty, where, depth=0):
        for n in names_in(keyty):
            if n in facts.types and depth < 4:
                add(norm_ty(facts.types[n].get("ty") or ""), where, depth + 1)
                continue
            d_ = _local_type(facts, n)
            if d_ is None:
                continue
            e = out.setdefault(n, {"where": [], "derived": facts.derives(d_), "manual": _manual(facts, n, ("PartialEq", "Eq", "Hash", "PartialOrd", "Ord"))})
            if where not in e["where"]:
                e["where"].append(where)
            # a record / enum used as a key is compared through its fields: crate types among them are keys too
            fields = d_.get("fields") or [f_ for v_ in d_.get("variants", []) for f_ in v_.get("fields", [])]
            for f_ in fields:
                if depth < 4:
                    add(norm_ty(f_.get("ty") or ""), where, depth + 1)

    def scan(ty, where):
        t = norm_ty(ty or "")
        for m in re.finditer(r"(HashMap|BTreeMap|HashSet|BTreeSet|IndexMap)<", t):
            args = F.split_generics(t[m.end() : _close(t, m.end() - 1)])
            if args:
                add(args[0], where)

    for sname, sd in facts.structs.items():
        if "::" in sname:
            continue
        for f_ in sd.get("fields", []):
            scan(f_.get("ty"), "%s.%s" % (sname, f_.get("name")))
    for aname, al in facts.types.items():
        scan(al.get("ty"), "type %s" % aname)
    return out


def _close(t, lt):
    d = 0
    for i in range(lt, len(t)):
        if t[i] == "<":
            d += 1
        elif t[i] == ">":
            d -= 1
            if d == 0:
                return i
    return len(t)


def key_problems(facts):
    """[text] for key types whose equality/hash is not the derived, field-by-field one."""
    bad = []
    for n, e in sorted(key_types(facts).items()):
        need = ["PartialEq", "Eq", "Hash"] if any("Hash" in w or True for w in e["where"]) else ["PartialEq", "Eq"]
        missing = [d for d in need if d not in e["derived"]]
        if e["manual"] or missing:
            bad.append("%s (key of %s): derives %s, hand-written %s" % (n, ", ".join(e["where"][:3]), e["derived"], e["manual"]))
    return bad
