"""Value semantics of the crate's own types, as far as the properties lean on them.

* `key_types(facts)`: the crate types used as keys of hash/b-tree collections (resolved through type aliases, tuples and
  wrappers), with the state of their `PartialEq` / `Eq` / `Hash` (/ `Ord`) impls.  A key whose equality or hash is hand-written may
  ignore a field (two different requests share one entry) or disagree with each other (a lookup that succeeds or not depending on
  the hasher's seed).  Derived impls compare and hash every field.
* `clone_problems(facts, types)`: `Clone` / `ToOwned` of the listed types is derived (a faithful copy); a hand-written impl is
  reported with its name — the parser clones tokens and sub-trees on its way out (`init.clone()`, `.to_owned()`)."""
import re

from . import facts as F
from .facts import norm_ty, find_all

AST_TYPES = ["Expression", "Operator", "Test", "Action", "Comparison", "Size", "TimeSpec", "FileType", "PermCheck", "Permission", "FormatElement", "FormatField", "FormatSpecial", "GlobalOption", "PositionalOption", "Token"]


def _local_type(facts, name):
    return facts.enums.get(name) or facts.structs.get(name)


def _manual(facts, tname, traits):
    return sorted({norm_ty(i["trait"]).split("::")[-1].split("<")[0] for _, _, i in facts.impls if norm_ty(i["self_ty"]).split("<")[0] == tname and i["trait"] and norm_ty(i["trait"]).split("::")[-1].split("<")[0] in traits})


def clone_problems(facts, types=None):
    bad = []
    for tname in types or AST_TYPES:
        d_ = _local_type(facts, tname)
        if d_ is None:
            continue
        man = _manual(facts, tname, ("Clone", "ToOwned"))
        if "Clone" not in facts.derives(d_) or man:
            bad.append("%s (derives %s, hand-written %s)" % (tname, facts.derives(d_), man))
    return bad


def eq_problems(facts, types=None):
    """Tree types whose `==` is not the derived one: the evaluators compare tree values structurally (what `derive(PartialEq)`
    does); a hand-written `eq` may identify different values (`Form == Newline`) wherever the code compares with `==`/`!=`."""
    bad = []
    for tname in types or AST_TYPES:
        d_ = _local_type(facts, tname)
        if d_ is None:
            continue
        man = _manual(facts, tname, ("PartialEq", "Eq"))
        if man:
            bad.append("%s (hand-written %s)" % (tname, man))
    return bad


def key_types(facts):
    """{type name: {"where": [field/alias it keys], "derived": [...], "manual": [...]}} for crate types inside the key position of a
    HashMap / HashSet / BTreeMap / BTreeSet field, local or alias anywhere in the crate's struct definitions."""
    out = {}

    def names_in(ty):
        return [n for n in re.findall(r"[A-Z][A-Za-z0-9_]*", ty or "") if _local_type(facts, n) is not None or n in facts.types]

    def add(keyty, where, depth=0):
        for n in names_in(keyty):
            if n in facts.types and depth < 4:
                add(norm_ty(facts.types[n].get("ty") or ""), where, depth + 1)
                continue
            d_ = _local_type(facts, n)
            if d_ is None:
                continue
            e = out.setdefault(n, {"where": [], "derived": facts.derives(d_), "manual": _manual(facts, n, ("PartialEq", "Eq", "Hash", "PartialOrd", "Ord"))})
            if where not in e["where"]:
                e["where"].append(where)
            # a record / enum used as a key is compared through its fields: crate types among them are keys too
            fields = d_.get("fields") or [f_ for v_ in d_.get("variants", []) for f_ in v_.get("fields", [])]
            for f_ in fields:
                if depth < 4:
                    add(norm_ty(f_.get("ty") or ""), where, depth + 1)

    def scan(ty, where):
        t = norm_ty(ty or "")
        for m in re.finditer(r"(HashMap|BTreeMap|HashSet|BTreeSet|IndexMap)<", t):
            args = F.split_generics(t[m.end() : _close(t, m.end() - 1)])
            if args:
                add(args[0], where)

    for sname, sd in facts.structs.items():
        if "::" in sname:
            continue
        for f_ in sd.get("fields", []):
            scan(f_.get("ty"), "%s.%s" % (sname, f_.get("name")))
    for aname, al in facts.types.items():
        scan(al.get("ty"), "type %s" % aname)
    return out


def _close(t, lt):
    d = 0
    for i in range(lt, len(t)):
        if t[i] == "<":
            d += 1
        elif t[i] == ">":
            d -= 1
            if d == 0:
                return i
    return len(t)


def key_problems(facts):
    """[text] for key types whose equality/hash is not the derived, field-by-field one."""
    bad = []
    for n, e in sorted(key_types(facts).items()):
        need = ["PartialEq", "Eq", "Hash"] if any("Hash" in w or True for w in e["where"]) else ["PartialEq", "Eq"]
        missing = [d for d in need if d not in e["derived"]]
        if e["manual"] or missing:
            bad.append("%s (key of %s): derives %s, hand-written %s" % (n, ", ".join(e["where"][:3]), e["derived"], e["manual"]))
    return bad


# ------------------------------------------------------------------ which item a method name resolves to
STD_METHOD_NAMES = set(
    """first last len is_empty get iter contains push pop insert remove extend join concat sort dedup retain split_at windows chunks to_vec starts_with ends_with
    binary_search swap reverse truncate clear drain first_mut last_mut split_first split_last checked_add checked_sub checked_mul checked_div checked_shl checked_shr
    checked_pow checked_neg checked_rem wrapping_add wrapping_sub wrapping_mul saturating_add saturating_sub saturating_mul overflowing_add overflowing_mul pow abs min max
    leading_zeros trailing_zeros count_ones to_string is_power_of_two next_power_of_two chars bytes trim trim_start trim_end find replace split split_once rsplit_once parse
    to_lowercase to_uppercase to_ascii_lowercase to_ascii_uppercase push_str as_str strip_prefix strip_suffix escape_debug escape_default map and_then unwrap unwrap_or
    unwrap_or_default unwrap_or_else ok_or ok_or_else is_some is_none is_ok is_err take get_or_insert get_or_insert_with filter or or_else zip xor entry keys values
    contains_key clone eq ne cmp partial_cmp hash fmt into from try_into try_from as_ref as_mut borrow deref default next collect fold any all count sum rev enumerate
    is_digit to_digit is_alphabetic is_alphanumeric is_numeric is_whitespace is_control is_ascii as_bytes as_secs duration_since now elapsed""".split()
)
MODULE_PROPS = {
    "find_parser": {"C01", "C03", "C05", "C06", "C07", "C08", "C13", "C14", "C17", "C18"},
    "ast": {"C02", "C03", "C07", "C09", "C10", "C12", "C16", "C17", "C19"},
    "scheme": {"C02", "C03", "C04", "C07", "C09", "C10", "C11", "C12", "C13", "C15", "C16", "C17", "C20"},
    "": {"C03", "C13", "C17"},
}
FOREIGN = re.compile(r"^(&?(mut)?\s*)?(u8|u16|u32|u64|u128|usize|i8|i16|i32|i64|i128|isize|bool|char|str|String|Vec<|Option<|Result<|HashMap<|HashSet<|BTreeMap<|BTreeSet<|\[|&\[|Box<|Rc<|Arc<|Cow<|T$|[A-Z]$)")


def shadowing(facts):
    """[(mechanism, module the shadow is visible in, text)]
    (a) an inherent method of a crate type that has the name of a method of a crate trait (`impl Expression { fn compile }` beside
        `impl TargetScheme for Expression`): the inherent one wins method resolution, the rules read the trait impl;
    (b) a crate trait implemented for a foreign type (integers, Vec<..>, str, Option, a blanket `T`) with a method named like a
        std method of that type (`last`, `checked_mul`, `replace`): with a `&self` receiver the trait method is found before
        auto-deref reaches the inherent one, and untouched calls such as `format.last()` change their meaning."""
    out = []
    trait_methods = {}
    for tn, tr in facts.traits.items():
        for it in tr.get("items", []) or []:
            if isinstance(it, dict) and it.get("k") == "fn":
                trait_methods.setdefault(it["name"], set()).add(tn)
    for key, fn in facts.fns.items():
        if fn.test or fn.impl is None:
            continue
        sty = norm_ty(fn.impl["self_ty"] or "")
        tr = fn.impl.get("trait")
        if not tr and fn.node.get("self") is None:
            # an inherent associated function named like an associated function of a crate trait the type implements
            # (`impl Comparison<u32> { fn parse }` beside the blanket `impl<P> Parseable for Comparison<P>`): `Type::f` names the inherent one
            for tn in trait_methods.get(fn.name, ()):
                impl_for = [norm_ty(i["self_ty"] or "") for _, _, i in facts.impls if i.get("trait") and norm_ty(i["trait"]).split("<")[0].split("::")[-1] == tn]
                base = sty.split("<")[0]
                if any(x.split("<")[0] == base or re.fullmatch(r"[A-Z]\w?", x) for x in impl_for):
                    out.append(("inherent-over-trait", tuple(fn.module), "inherent `%s::%s` has the name of `%s::%s`, which the type also implements: paths written `%s::%s` resolve to the inherent one" % (sty, fn.name, tn, fn.name, base, fn.name)))
        elif not tr:
            # (a) inherent method named like a method of a crate trait this type (or a blanket) implements
            for tn in trait_methods.get(fn.name, ()):
                impl_for = [norm_ty(i["self_ty"] or "") for _, _, i in facts.impls if i.get("trait") and norm_ty(i["trait"]).split("<")[0].split("::")[-1] == tn]
                base = sty.split("<")[0]
                if any(x.split("<")[0] == base or re.fullmatch(r"[A-Z]\w?", x) for x in impl_for):
                    out.append(("inherent-over-trait", tuple(fn.module), "inherent `%s::%s` has the name of `%s::%s`, which the type also implements: calls written `.%s(..)` / `%s::%s` resolve to the inherent one" % (sty, fn.name, tn, fn.name, fn.name, base, fn.name)))
        else:
            tname = norm_ty(tr).split("<")[0].split("::")[-1]
            sty_r = sty
            for _ in range(4):
                al = facts.types.get(sty_r.lstrip("&").split("<")[0])
                if al is None:
                    break
                sty_r = norm_ty(al.get("ty") or "")
            base_r = re.sub(r"^(&|mut\s*)+", "", sty_r).split("<")[0]
            foreign = FOREIGN.match(sty_r) or (base_r not in facts.structs and base_r not in facts.enums)
            if tname in facts.traits and foreign and fn.name in STD_METHOD_NAMES and fn.node.get("self") is not None:
                out.append(("trait-over-std", tuple(facts.traits[tname].get("_module") or fn.module), "crate trait `%s` gives `%s` a method `%s`, the name of a std method: where the trait is in scope, `x.%s(..)` on a `&%s` resolves to the trait's" % (tname, sty, fn.name, fn.name, sty)))
    # dedupe
    seen, res = set(), []
    for x in out:
        if x[2] not in seen:
            seen.add(x[2])
            res.append(x)
    return res


def resolution_obligation(c, facts, pid):
    """One obligation per property: no shadowing item is visible in the part of the crate the property's rules read."""
    hits = []
    for mech, mod, text in shadowing(facts):
        top = mod[0] if mod else ""
        props = set(MODULE_PROPS.get(top, set()))
        # a trait defined in the parser prelude or in ast.rs is glob-imported all over the parser front end
        if top == "ast":
            props |= MODULE_PROPS["find_parser"]
        if pid in props or not props:
            hits.append(text)
    c.ob("%s.resolution" % pid, "crate", "method names resolve to the items the rules read", not hits, "; ".join(hits) if hits else "no inherent method shadows a crate trait method, no crate trait gives a std type a method with a std name", nontrivial=False)


ENV_CALL = re.compile(r"^(std::)?env::(var|var_os|vars|vars_os|args|args_os|current_dir|current_exe|temp_dir|home_dir)$")


def environment_reads(facts, pid):
    """Calls of std::env::* and uses of env!/option_env! in the non-test functions of the modules the property's rules read."""
    out = []
    for fn in facts.nontest_fns():
        top = fn.module[0] if fn.module else ""
        props = MODULE_PROPS.get(top, set())
        if props and pid not in props:
            continue
        for x in find_all(fn.node, lambda n: isinstance(n, dict) and n.get("k") in ("call", "macro", "path")):
            if x.get("k") == "macro" and x.get("name") in ("env", "option_env"):
                out.append("%s!(..) in %s" % (x["name"], fn.key))
            elif x.get("k") == "path":
                segs = x.get("segs") or []
                txt = "::".join(segs)
                if ENV_CALL.match(txt) or (len(segs) >= 2 and segs[-2] == "env" and ENV_CALL.match("env::" + segs[-1])):
                    out.append("%s in %s" % (txt, fn.key))
    return sorted(set(out))
