"""Combinator IR: abstract interpretation of winnow parser *expressions* into a PEG term.

The term language (dict nodes, key "t"):

  lit{s}  set{cs,min,max}  tokset{toks}  any  eof  fail  until{min,s}
  seq{items:[{p,keep}]}  alt{alts}  rep{min,max,p}  reptill{min,max,p,stop}  sep{min,max,p,sep}
  cut{p}  ctx{kind,s,p}  andthen{outer,inner}  map{p,f}  value{p,v}  trymap{p,f}  fold{p,init,step}
  ref{fn,targs,extra}  fnbody{steps,tail,ret,lets,unknown}  opaque{src}

`max` is None for unbounded.  Character sets are ("in", frozenset) / ("notin", frozenset).
Every node carries "l" (line, information only).  Unknown constructs become `opaque`; rules treat
opaque as *unknown*, never as a match.
"""
import re

from . import facts as F
from . import rx
from .facts import src

WINNOW_LEAVES = {
    "winnow::ascii::digit1": ("set", "digit", 1),
    "winnow::ascii::digit0": ("set", "digit", 0),
    "winnow::ascii::alpha1": ("set", "alpha", 1),
    "winnow::ascii::alpha0": ("set", "alpha", 0),
    "winnow::ascii::multispace0": ("set", "multispace", 0),
    "winnow::ascii::multispace1": ("set", "multispace", 1),
    "winnow::ascii::space0": ("set", "space", 0),
    "winnow::ascii::space1": ("set", "space", 1),
    "winnow::token::any": ("any",),
    "winnow::combinator::rest": ("set", "everything", 0),
    "winnow::token::rest": ("set", "everything", 0),
    "winnow::combinator::eof": ("eof",),
    "winnow::combinator::fail": ("fail",),
}
WINNOW_COMB = {
    "winnow::combinator::alt",
    "winnow::combinator::cut_err",
    "winnow::combinator::delimited",
    "winnow::combinator::preceded",
    "winnow::combinator::terminated",
    "winnow::combinator::separated_pair",
    "winnow::combinator::repeat",
    "winnow::combinator::repeat_till",
    "winnow::combinator::separated",
    "winnow::combinator::opt",
    "winnow::combinator::peek",
    "winnow::combinator::not",
    "winnow::token::literal",
    "winnow::token::one_of",
    "winnow::token::none_of",
    "winnow::token::take_until",
    "winnow::token::take_while",
    "winnow::token::take_till",
}

ALPHA = frozenset("ABCDEFGHIJKLMNOPQRSTUVWXYZabcdefghijklmnopqrstuvwxyz")
DIGIT = frozenset("0123456789")


# ------------------------------------------------------------------ charsets
def cs_in(chars):
    return ("in", frozenset(chars))


def cs_notin(chars):
    return ("notin", frozenset(chars))


def cs_has(cs, c):
    return (c in cs[1]) if cs[0] == "in" else (c not in cs[1])


def cs_compl(cs):
    return ("notin" if cs[0] == "in" else "in", cs[1])


def cs_inter(a, b):
    if a[0] == "in" and b[0] == "in":
        return ("in", a[1] & b[1])
    if a[0] == "in":
        return ("in", a[1] - b[1])
    if b[0] == "in":
        return ("in", b[1] - a[1])
    return ("notin", a[1] | b[1])


def cs_union(a, b):
    return cs_compl(cs_inter(cs_compl(a), cs_compl(b)))


def cs_empty(cs):
    return cs[0] == "in" and not cs[1]


def cs_subset(a, b):
    return cs_empty(cs_inter(a, cs_compl(b)))


def cs_disjoint(a, b):
    return cs_empty(cs_inter(a, b))


def cs_show(cs):
    body = "".join(sorted(cs[1])).encode("unicode_escape").decode()
    return ("[%s]" if cs[0] == "in" else "[^%s]") % body


def cs_example(cs, avoid=""):
    if cs[0] == "in":
        for c in sorted(cs[1]):
            if c not in avoid:
                return c
        return sorted(cs[1])[0] if cs[1] else None
    for c in "xyzqXYZQ0-_.~#":
        if c not in cs[1] and c not in avoid:
            return c
    return None


# ------------------------------------------------------------------ winnow data read from the pinned source
_WINNOW = {}


def winnow_facts(repo=None):
    """Facts that are *data* in the winnow version pinned by Cargo.lock (blank set of multispace*)."""
    import glob
    import os

    ver = F.cargo_lock_version("winnow", repo)
    if ver in _WINNOW:
        return _WINNOW[ver]
    out = {"version": ver, "multispace": None, "space": None, "src": None}
    cands = glob.glob(os.path.expanduser("~/.cargo/registry/src/*/winnow-%s/src/ascii/mod.rs" % ver))
    if cands:
        txt = open(cands[0]).read()
        out["src"] = cands[0]
        def body_of(name):
            # the text of `pub fn NAME<..>(..) .. { .. }` up to the next item (never into a neighbouring function)
            m0 = re.search(r"\npub fn %s<.*?\n\}\n" % name, txt, re.S)
            return m0.group(0) if m0 else ""

        def set_of(body):
            m1 = re.search(r"take_while\(0\.\.,\s*\(([^)]*)\)\)", body)
            if m1:
                return frozenset(eval("[" + m1.group(1) + "]"))
            m1 = re.search(r"take_while\(0\.\.,\s*AsChar::(\w+)\)", body)
            if m1 and m1.group(1) in ("is_space",):
                # AsChar::is_space for char / u8: `*self == ' ' || *self == '\t'` (read from the stream module of the same version)
                st_ = glob.glob(os.path.join(os.path.dirname(os.path.dirname(cands[0])), "stream", "mod.rs"))
                stxt = open(st_[0]).read() if st_ else ""
                m2 = re.search(r"impl AsChar for char \{.*?fn is_space\(self\) -> bool \{\s*(.*?)\s*\}", stxt, re.S)
                if m2:
                    chars = re.findall(r"'(\\?.)'", m2.group(1))
                    if chars and re.fullmatch(r"(?:\s*\*?self\s*==\s*'\\?.'\s*\|\|)*\s*\*?self\s*==\s*'\\?.'\s*", m2.group(1)):
                        return frozenset(eval("'%s'" % c_) for c_ in chars)
            return None

        out["multispace"] = set_of(body_of("multispace0"))
        out["space"] = set_of(body_of("space0"))
    _WINNOW[ver] = out
    return out


def named_set(name):
    if name == "everything":
        return cs_notin([])
    if name == "digit":
        return cs_in(DIGIT)
    if name == "alpha":
        return cs_in(ALPHA)
    w = winnow_facts()
    if name == "multispace":
        if w["multispace"] is None:
            raise F.AnchorMissing("winnow multispace definition (version %s)" % w["version"])
        return cs_in(w["multispace"])
    if name == "space":
        if w["space"] is None:
            raise F.AnchorMissing("winnow space definition")
        return cs_in(w["space"])
    raise KeyError(name)


# ------------------------------------------------------------------ builder
def N(t, node=None, **kw):
    d = {"t": t, "l": node.get("l") if isinstance(node, dict) else None}
    d.update(kw)
    return d


def strip_refs(e):
    while isinstance(e, dict) and e.get("k") in ("ref",):
        e = e["e"]
    return e


class Builder:
    def __init__(self, facts):
        self.facts = facts
        self.memo = {}
        self.stack = []

    # ---------------------------------------------------------- name resolution
    def module_exports(self, module, seen=None):
        """name -> ('winnow', path) | ('fn', key) | ('type', name) visible through `use module::*`."""
        seen = seen or set()
        if module in seen:
            return {}
        seen.add(module)
        # Rust name resolution: items and named imports of the module shadow whatever a glob import brings in
        out = {}
        uses = self.facts.uses.get(module, [])
        for u in uses:
            if u.get("glob"):
                self._use_into(u, module, out, seen)
        for u in uses:
            if not u.get("glob"):
                self._use_into(u, module, out, seen)
        for key, fn in self.facts.fns.items():
            if fn.impl is None and fn.module == module:
                out[fn.name] = ("fn", key)
        return out

    def _abs(self, path, module):
        p = list(path)
        if p and p[0] == "crate":
            return tuple(p[1:])
        if p and p[0] == "self":
            return module + tuple(p[1:])
        if p and p[0] == "super":
            return module[:-1] + tuple(p[1:])
        # relative to current module if first segment is a child module
        child = module + (p[0],) if p else module
        if any(tuple(f["module"]) == child or tuple(f["module"])[: len(child)] == child for f in self.facts.files):
            return module + tuple(p)
        return None

    def _use_into(self, u, module, out, seen):
        path = u["path"]
        if path and path[0] == "winnow":
            if u["glob"]:
                return
            out[u["alias"]] = ("winnow", "::".join(path))
            return
        ab = self._abs(path, module)
        if ab is None:
            if not u["glob"] and path:
                out[u["alias"]] = ("extern", "::".join(path))
            return
        if u["glob"]:
            out.update(self.module_exports(ab, set(seen)))
            return
        # a named import: module item or type
        mod, name = ab[:-1], ab[-1]
        key = "::".join(ab)
        if key in self.facts.fns:
            out[u["alias"]] = ("fn", key)
        elif name in self.facts.enums or name in self.facts.structs or name in self.facts.types or name in self.facts.traits:
            out[u["alias"]] = ("type", name)
        elif any(tuple(f["module"]) == ab for f in self.facts.files):
            out[u["alias"]] = ("mod", ab)
        else:
            # re-export chain: look in the exporting module
            ex = self.module_exports(mod, set(seen))  # (a copy: the guard is against cycles, not against asking twice)
            if name in ex:
                out[u["alias"]] = ex[name]

    def scope(self, module):
        key = ("scope", module)
        if key not in self.memo:
            self.memo[key] = self.module_exports(module)
        return self.memo[key]

    def resolve_path(self, segs, module):
        """Resolve a value path.  Returns ('winnow', full) | ('fn', key) | ('type', name) | ('typed', type, member) | None"""
        sc = self.scope(module)
        if len(segs) == 1:
            return sc.get(segs[0])
        if segs[0] == "winnow":
            return ("winnow", "::".join(segs))
        # module-relative function
        first = sc.get(segs[0])
        if first and first[0] == "mod":
            key = "::".join(first[1] + tuple(segs[1:]))
            if key in self.facts.fns:
                return ("fn", key)
        ab = self._abs(segs, module)
        if ab is not None and "::".join(ab) in self.facts.fns:
            return ("fn", "::".join(ab))
        if first and first[0] == "winnow":
            return ("winnow", first[1] + "::" + "::".join(segs[1:]))
        return ("typed", segs[0], segs[1:])

    # ---------------------------------------------------------- function IR
    def fn_ir(self, key, tsubst=None):
        tsubst = tsubst or {}
        mk = ("fn", key, tuple(sorted(tsubst.items())))
        if mk in self.memo:
            return self.memo[mk]
        if mk in self.stack:
            return N("opaque", None, src="recursive-instantiation " + key)
        fn = self.facts.fn(key)
        self.stack.append(mk)
        try:
            ir = self._fn_body(fn, tsubst)
        finally:
            self.stack.pop()
        ir["fn"] = key
        ir["targs"] = dict(tsubst)
        self.memo[mk] = ir
        return ir

    def _input_name(self, fn):
        for name, ty in fn.params:
            if ty in ("&mut&str", "&mut&'_str", "&mut&[Token]", "&mut&'astr") or ty.startswith("&mut&"):
                return name
        return None

    def template_fns(self):
        """Parser functions that exist only to be instantiated: free, private, with parameters besides the input, and used
        nowhere but as the whole body of thin wrappers `fn list(input) { left_assoc(input, or, Token::Comma, ..) }`.  Their
        own body is examined once per wrapper, with the arguments in place of the parameters (never in isolation)."""
        if getattr(self, "_templates", None) is not None:
            return self._templates
        out = set()
        for key, fn in self.facts.fns.items():
            if fn.test or fn.impl is not None or fn.node.get("vis") == "pub":
                continue
            inp = self._input_name(fn)
            if inp is None or len(fn.params) < 2 or not all(n_ for n_, _ in fn.params):
                continue
            uses, thin = 0, 0
            for k2, f2 in self.facts.fns.items():
                if f2.test or f2 is fn:
                    continue
                refs = F.find_all(f2.body, lambda n_: n_.get("k") == "path" and n_["segs"][-1] == fn.name, skip_pats=True)
                # a local variable of the same name is not a use of the function: the path has to resolve to it
                refs = [r_ for r_ in refs if (self.resolve_path(r_["segs"], f2.module) if len(r_["segs"]) > 1 else self.scope(f2.module).get(r_["segs"][0])) == ("fn", key)]
                if not refs:
                    continue
                uses += len(refs)
                if self._thin_wrapper_of(f2, tail_only=True) is fn and len(refs) == 1:
                    thin += 1
            if uses and uses == thin:
                out.add(key)
        self._templates = out
        return out

    def _thin_wrapper_of(self, fn, tail_only=False):
        """the callee when the whole body of `fn` (tail_only: its last statement) is `callee(input, extra..)`, else None"""
        inp = self._input_name(fn)
        real = [s_ for s_ in fn.body["stmts"] if s_["k"] != "item"]
        if inp is None or not real or (len(real) != 1 and not tail_only) or real[-1]["k"] != "expr" or real[-1].get("semi"):
            return None
        e = real[-1]["e"]
        if not (e["k"] == "call" and e["f"].get("k") == "path" and len(e["args"]) >= 2):
            return None
        a0 = strip_refs(e["args"][0])
        if not (a0.get("k") == "path" and a0["segs"] == [inp]):
            return None
        r = self._resolve_fn_path(e["f"], {"__module": fn.module, "__tsubst": {}})
        callee = self.facts.fns.get(r[0]) if r else None
        if callee is None or callee.impl is not None or callee is fn or self._input_name(callee) is None or len(callee.params) != len(e["args"]) or not all(n_ for n_, _ in callee.params):
            return None
        if [n_ for n_, _ in callee.params][0] != self._input_name(callee):
            return None
        return callee

    def _fn_body(self, fn, tsubst):
        callee = self._thin_wrapper_of(fn) if fn.impl is None else None
        if callee is not None and ("inst", fn.key) not in self.stack:
            # a thin wrapper: the callee's body with the arguments in place of its parameters
            from .normalise import _subst

            call = [s_ for s_ in fn.body["stmts"] if s_["k"] != "item"][0]["e"]
            sub = {n_: a_ for (n_, _), a_ in list(zip(callee.params, call["args"]))[1:]}
            node = dict(callee.node, body=_subst(callee.body, sub), inputs=[callee.node["inputs"][0]], name=fn.name)
            inst = F.Fn(fn.key, node, callee.file, callee.module, None, False)
            self.stack.append(("inst", fn.key))
            try:
                ir = self._fn_body(inst, tsubst)
            finally:
                self.stack.pop()
            ir["instance_of"] = callee.key
            return ir
        return self._fn_body_plain(fn, tsubst)

    def _fn_body_plain(self, fn, tsubst, inherited=None):
        inp = self._input_name(fn)
        env = {"__fn": fn, "__input": inp, "__tsubst": tsubst, "__module": fn.module}
        env.update(inherited or {})
        # extra parameters (e.g. `default: impl Fn(u64) -> TimeSpec`) are symbolic values
        for name, ty in fn.params:
            if name and name != inp:
                env[name] = N("param", None, name=name, ty=ty)
        steps, lets, unknown = [], [], []
        tail, ret = None, None
        stmts = fn.body["stmts"]
        for i, st in enumerate(stmts):
            last = i == len(stmts) - 1
            if st["k"] == "let":
                init = st["init"]
                inv = self._invocation(init, env)
                if inv is not None:
                    steps.append({"pat": st["pat"], "p": inv, "l": st["l"]})
                    continue
                pv = self._maybe_parser_value(init, env)
                if pv is not None and st["pat"]["k"] == "ident":
                    env[st["pat"]["name"]] = pv
                    continue
                lets.append(st)
                continue
            if st["k"] == "expr" and st["e"]["k"] == "while" and i == len(stmts) - 2:
                # `let mut acc = FIRST.parse_next(input)?;
                #  while let Some(v) = opt(STEP).parse_next(input)? { acc = F(acc, v); }
                #  Ok(acc)`
                # is the hand-written form of `repeat(0.., STEP).fold(|| acc, |acc, v| F(acc, v))` after FIRST: opt() stops the
                # loop on a recoverable error without consuming, `?` passes an unrecoverable one on — what winnow's fold does
                fo = self._while_fold(st["e"], stmts[i + 1], steps, env)
                if fo is not None:
                    tail = fo
                    break
            if st["k"] == "expr" and st["e"]["k"] == "loop" and i == len(stmts) - 1:
                # `let mut acc = FIRST.parse_next(input)?;
                #  loop { let ck = input.checkpoint();
                #         match STEP.parse_next(input) { Ok(v) => acc = F(acc, v),
                #                                        Err(ErrMode::Backtrack(_)) => { input.reset(&ck); return Ok(acc) }
                #                                        Err(e) => return Err(e) } }`
                # is winnow's `repeat(0.., STEP).fold(|| acc, F)` written out (its progress check aside: C03.progress)
                fo = self._loop_fold(st["e"], steps, env)
                if fo is not None:
                    tail = fo
                    break
            if st["k"] == "expr":
                e = st["e"]
                if last and not st["semi"]:
                    inv = self._invocation(e, env, allow_try=False)
                    if inv is not None and inv.get("t") == "ref" and inv.get("extra") and fn.impl is None and i > 0 and self._thin_wrapper_of(fn, tail_only=True) is not None and ("inst", fn.key) not in self.stack:
                        # the function ends in a call of a parser template: its body, with the arguments in place of the
                        # parameters, continues this one
                        from .normalise import _subst

                        callee = self._thin_wrapper_of(fn, tail_only=True)
                        sub = {n_: a_ for (n_, _), a_ in list(zip(callee.params, e["args"]))[1:]}
                        node = dict(callee.node, body=_subst(callee.body, sub), inputs=[callee.node["inputs"][0]], name=fn.name)
                        inst = F.Fn(fn.key, node, callee.file, callee.module, None, False)
                        self.stack.append(("inst", fn.key))
                        try:
                            ib = self._fn_body_plain(inst, tsubst, dict((k_, v_) for k_, v_ in env.items() if not k_.startswith("__")))
                        finally:
                            self.stack.pop()
                        steps += ib["steps"]
                        lets += ib["lets"]
                        unknown += ib["unknown"]
                        tail, ret = ib["tail"], ib["ret"]
                        continue
                    if inv is not None:
                        if inv.get("t") == "ref" and e["k"] == "call":
                            self._infer_targs(inv, fn, tsubst)
                        tail = inv
                        continue
                    if e["k"] == "call" and e["f"]["k"] == "path" and e["f"]["segs"] == ["Ok"] and len(e["args"]) == 1:
                        # Ok(<invocation>?) or Ok(pure expr)
                        a = e["args"][0]
                        inv2 = self._ok_wrapped_invocation(a, env)
                        if inv2 is not None:
                            tail = inv2
                        else:
                            ret = a
                        continue
                    if inp and self._ok_or_assert(e, inp):
                        # `found.ok_or_else(|| ErrMode::assert(input, ".."))`: a value computed from what was parsed; the
                        # input is mentioned only to build winnow's assertion error (whether that can happen: C03)
                        ret = e
                        continue
                    if inp and self._always_ok(e) and not F.find_all(e, lambda n_: n_.get("k") == "path" and n_["segs"] == [inp]):
                        # value-level code choosing between several `Ok(..)` (a match / if over what was parsed): it reads no
                        # input and cannot fail
                        ret = e
                        continue
                if st["semi"]:
                    inv = self._invocation(e, env)
                    if inv is not None:
                        # `<parser>.parse_next(input)?;` — a step whose result is dropped
                        steps.append({"pat": {"k": "wild", "l": st.get("l")}, "p": inv, "l": st.get("l")})
                        continue
                if e.get("k") == "macro" and e.get("name") in ("assert", "debug_assert", "assert_eq", "debug_assert_eq", "assert_ne", "debug_assert_ne") and e.get("args") and not (inp and F.find_all(e["args"], lambda n_: isinstance(n_, dict) and n_.get("k") == "path" and n_.get("segs") == [inp])) and not F.find_all(e["args"], lambda n_: isinstance(n_, dict) and ((n_.get("k") == "binary" and n_.get("op", "").endswith("=") and n_["op"] not in ("==", "!=", "<=", ">=")) or n_.get("k") in ("assign", "closure"))):
                    # an assertion about values already parsed: it reads no input and yields nothing — as a parser the function
                    # is what it is without it.  Whether it can fire is a panic question (C03 census) and a profile question
                    # (C17.cfg), decided there.
                    continue
                unknown.append(st)
                continue
            if st["k"] == "item":
                continue
            unknown.append(st)
        if inp is None and "Parser<" in F.norm_ty(fn.node["output"]):
            # a function *returning* a parser, e.g. quote_delimiter(); nested items are declarations, not statements
            real = [s_ for s_ in stmts if s_["k"] != "item"]
            if len(real) == 1 and real[0]["k"] == "expr":
                return N("fnbody", fn.node, steps=[], tail=self.pe(real[0]["e"], env), ret=None, lets=[], unknown=[], returns_parser=True)
            # anything else is not understood: keep the marker so that the rules about word parsers see (and reject) it
            return N("fnbody", fn.node, steps=[], tail=N("opaque", fn.node, src="body of %s" % fn.key), ret=None, lets=[], unknown=[s_ for s_ in real], returns_parser=True)
        # parsers applied to the input inside statements that were not understood (their order and conditions are unknown,
        # but that they may run is known): rules that look for what can happen *after* the steps consult them
        late = []
        for st_ in unknown + ([{"k": "expr", "e": ret}] if isinstance(ret, dict) else []):
            for n_ in F.find_all(st_, lambda n_: isinstance(n_, dict) and n_.get("k") in ("call", "mcall")):
                try:
                    inv_ = self._invocation(n_, env, allow_try=False)
                except Exception:
                    inv_ = None
                if inv_ is not None:
                    late.append(inv_)
        return N("fnbody", fn.node, steps=steps, tail=tail, ret=ret, lets=lets, unknown=unknown, late=late)

    def _ok_wrapped_invocation(self, a, env):
        """Ok(Wrapper(F(input, ..)?)) -> map(ref F, Wrapper)."""
        if a["k"] == "call" and len(a["args"]) == 1:
            inner = a["args"][0]
            inv = self._invocation(inner, env)
            if inv is not None and a["f"]["k"] == "path":
                return N("map", a, p=inv, f=a["f"])
        inv = self._invocation(a, env)
        return inv

    def _invocation(self, e, env, allow_try=True):
        """Recognise the *application* of a parser to the function's input; returns IR or None."""
        if e is None:
            return None
        if e["k"] == "try":
            return self._invocation(e["e"], env, allow_try)
        inp = env.get("__input")
        if e["k"] == "mcall":
            if e["m"] == "parse_next" and len(e["args"]) == 1 and self._is_input(e["args"][0], env):
                return self.pe(e["recv"], env)
            if e["m"] == "map" and len(e["args"]) == 1:
                inner = self._invocation(e["recv"], env)
                if inner is not None:
                    return N("map", e, p=inner, f=e["args"][0], result_map=True)
        if e["k"] == "call" and e["f"]["k"] == "path":
            segs = e["f"]["segs"]
            # UFCS: winnow::Parser::<..>::parse_next(&mut P, input)
            if segs[-1] == "parse_next" and len(e["args"]) == 2 and self._is_input(e["args"][1], env):
                return self.pe(strip_refs(e["args"][0]), env)
            # direct call of a parser function: F(input, extra..)
            if e["args"] and self._is_input(e["args"][0], env):
                r = self._resolve_fn_path(e["f"], env)
                if r is not None:
                    key, ts = r
                    return N("ref", e, fn=key, targs=ts, extra=e["args"][1:])
        return None

    def _loop_fold(self, w, steps, env):
        inp = env.get("__input")
        body = [x for x in w["body"]["stmts"] if x["k"] != "item"]
        if len(body) != 2 or body[0]["k"] != "let" or body[0]["pat"].get("k") != "ident" or body[1]["k"] != "expr":
            return None
        ck = body[0]["pat"]["name"]
        ci = body[0].get("init")
        if not (ci and ci["k"] == "mcall" and ci["m"] == "checkpoint" and not ci["args"] and self._is_input(ci["recv"], env)):
            return None
        mt = body[1]["e"]
        if mt["k"] != "match" or len(mt["arms"]) != 3 or any(a_["guard"] is not None for a_ in mt["arms"]):
            return None
        if mt["scrut"]["k"] == "try":
            return None
        inv = self._invocation(mt["scrut"], env, allow_try=False)
        if inv is None:
            return None
        okarm = backarm = errarm = None
        for a_ in mt["arms"]:
            q = a_["pat"]
            if q["k"] != "tstruct" or len(q["elems"]) != 1:
                return None
            if q["segs"] == ["Ok"]:
                okarm = a_
            elif q["segs"] == ["Err"]:
                r = q["elems"][0]
                if r["k"] == "tstruct" and r["segs"][-1] == "Backtrack" and errarm is None:
                    backarm = a_
                elif r["k"] == "ident" and r.get("sub") is None:
                    errarm = a_
                else:
                    return None
            else:
                return None
        if not (okarm and backarm and errarm):
            return None
        # Ok(v) => acc = RHS
        ob = okarm["body"]
        if ob["k"] == "block":
            real = [x for x in ob["stmts"] if x["k"] != "item"]
            if len(real) != 1 or real[0]["k"] != "expr":
                return None
            ob = real[0]["e"]
        if ob["k"] != "assign" or not (ob["lhs"]["k"] == "path" and len(ob["lhs"]["segs"]) == 1):
            return None
        acc = ob["lhs"]["segs"][0]
        bound = [s_ for s_ in steps if s_["pat"].get("k") == "ident" and s_["pat"].get("name") == acc]
        if len(bound) != 1 or F.find_all(ob["rhs"], lambda n_: n_.get("k") == "path" and n_["segs"] == [inp]):
            return None
        # Err(Backtrack(_)) => { input.reset(&ck); return Ok(acc); }
        bb = [x for x in backarm["body"]["stmts"] if x["k"] != "item"] if backarm["body"]["k"] == "block" else []
        if len(bb) != 2 or bb[0]["k"] != "expr" or bb[1]["k"] != "expr":
            return None
        rs, rt = bb[0]["e"], bb[1]["e"]
        if not (rs["k"] == "mcall" and rs["m"] == "reset" and len(rs["args"]) == 1 and self._is_input(rs["recv"], env) and strip_refs(rs["args"][0]).get("segs") == [ck]):
            return None
        is_ret = lambda e_, ctor, name: e_["k"] == "return" and e_.get("e") is not None and e_["e"]["k"] == "call" and e_["e"]["f"].get("k") == "path" and e_["e"]["f"]["segs"] == [ctor] and len(e_["e"]["args"]) == 1 and e_["e"]["args"][0].get("k") == "path" and e_["e"]["args"][0]["segs"] == [name]
        if not is_ret(rt, "Ok", acc):
            return None
        # Err(e) => return Err(e)
        eb = errarm["body"]
        if eb["k"] == "block":
            real = [x for x in eb["stmts"] if x["k"] != "item"]
            if len(real) != 1 or real[0]["k"] != "expr":
                return None
            eb = real[0]["e"]
        if not is_ret(eb, "Err", errarm["pat"]["elems"][0]["name"]):
            return None
        l = w.get("l")
        accp = {"k": "path", "l": l, "segs": [acc], "gen": [[]], "qself": None, "global": False}
        init = {"k": "closure", "l": l, "params": [], "body": {"k": "mcall", "l": l, "recv": accp, "m": "clone", "targs": [], "args": []}, "move": True}
        step = {"k": "closure", "l": l, "params": [{"k": "ident", "l": l, "name": acc, "by_ref": False, "mut": False, "sub": None}, okarm["pat"]["elems"][0]], "body": ob["rhs"], "move": False}
        return N("fold", w, p=N("rep", w, min=0, max=None, p=inv, from_while=w), init=init, step=step, from_while=w)

    def _while_fold(self, w, after, steps, env):
        c = w["cond"]
        if c.get("k") != "letexpr":
            return None
        pat = c["pat"]
        if not (pat["k"] == "tstruct" and pat["segs"] == ["Some"] and len(pat["elems"]) == 1):
            return None
        inv = self._invocation(c["e"], env)
        if inv is None or not (inv["t"] == "alt" and inv.get("opt")):
            return None
        body = [x for x in w["body"]["stmts"] if x["k"] != "item"]
        if len(body) != 1 or body[0]["k"] != "expr" or body[0]["e"]["k"] != "assign":
            return None
        asg = body[0]["e"]
        acc = asg["lhs"]["segs"][0] if asg["lhs"]["k"] == "path" and len(asg["lhs"]["segs"]) == 1 else None
        bound = [s_ for s_ in steps if s_["pat"].get("k") == "ident" and s_["pat"].get("name") == acc]
        if acc is None or len(bound) != 1:
            return None
        ae = after.get("e") if after["k"] == "expr" and not after.get("semi") else None
        if not (ae and ae["k"] == "call" and ae["f"].get("k") == "path" and ae["f"]["segs"] == ["Ok"] and len(ae["args"]) == 1 and ae["args"][0].get("k") == "path" and ae["args"][0]["segs"] == [acc]):
            return None
        # the input may not be touched by the loop body (only by the condition)
        inp = env.get("__input")
        if F.find_all(asg["rhs"], lambda n_: n_.get("k") == "path" and n_["segs"] == [inp]):
            return None
        l = w.get("l")
        accp = {"k": "path", "l": l, "segs": [acc], "gen": [[]], "qself": None, "global": False}
        init = {"k": "closure", "l": l, "params": [], "body": {"k": "mcall", "l": l, "recv": accp, "m": "clone", "targs": [], "args": []}, "move": True}
        step = {"k": "closure", "l": l, "params": [{"k": "ident", "l": l, "name": acc, "by_ref": False, "mut": False, "sub": None}, pat["elems"][0]], "body": asg["rhs"], "move": False}
        return N("fold", w, p=N("rep", w, min=0, max=None, p=inv["alts"][0], from_while=w), init=init, step=step, from_while=w)

    def _ok_or_assert(self, e, inp):
        if not (e.get("k") == "mcall" and e["m"] == "ok_or_else" and len(e["args"]) == 1 and e["args"][0].get("k") == "closure"):
            return False
        clo = e["args"][0]
        body = clo["body"]
        while body.get("k") == "block" and len(body["stmts"]) == 1 and body["stmts"][0]["k"] == "expr":
            body = body["stmts"][0]["e"]
        if not (body.get("k") == "call" and body["f"].get("k") == "path" and body["f"]["segs"][-1] == "assert" and len(body["f"]["segs"]) >= 2):
            return False
        return not F.find_all(e["recv"], lambda n_: n_.get("k") == "path" and n_["segs"] == [inp])

    def _always_ok(self, e, depth=0):
        """Every way through `e` ends in `Ok(..)` or diverges (unreachable!/panic!)."""
        e = strip_refs(e)
        k = e.get("k")
        if depth > 20:
            return False
        if k == "call" and e["f"].get("k") == "path" and e["f"]["segs"] == ["Ok"] and len(e["args"]) == 1:
            return True
        if k == "macro" and e["name"] in ("unreachable", "panic", "todo", "unimplemented"):
            return True
        if k == "match":
            return bool(e["arms"]) and all(self._always_ok(a["body"], depth + 1) for a in e["arms"])
        if k == "if":
            return e.get("else") is not None and self._always_ok(e["then"], depth + 1) and self._always_ok(e["else"], depth + 1)
        if k == "block":
            st = e["stmts"]
            return bool(st) and st[-1]["k"] == "expr" and not st[-1].get("semi") and all(x["k"] in ("let", "expr") for x in st) and self._always_ok(st[-1]["e"], depth + 1)
        return False

    def _infer_targs(self, ref, caller, tsubst):
        """`helper(input)` in tail position with the helper's type parameters left to inference: they are fixed by the
        caller's return type (PResult<T> against PResult<u32>)."""
        callee = self.facts.fns.get(ref["fn"])
        if callee is None:
            return
        gens = F.generic_params(callee.node.get("generics"))
        missing = [g_ for g_ in gens if g_ not in (ref.get("targs") or {}) and not g_.startswith("'")]
        if not missing:
            return
        want = F.norm_ty(caller.node["output"])
        for k_, v_ in (tsubst or {}).items():
            want = re.sub(r"\b%s\b" % re.escape(k_), v_, want)
        if caller.impl is not None:
            want = re.sub(r"\bSelf\b", F.norm_ty(caller.impl["self_ty"]), want)
        have = F.norm_ty(callee.node["output"])
        # unify: the callee's output with each missing parameter as a hole
        pat = re.escape(have)
        names = []
        for g_ in missing:
            if re.search(r"\b%s\b" % g_, have):
                pat = re.sub(r"\b%s\b" % g_, lambda m_, g_=g_: "(?P<%s>[A-Za-z0-9_:<>,&']+)" % g_ if g_ not in names and not names.append(g_) else "(?P=%s)" % g_, pat)
        m_ = re.fullmatch(pat, want)
        if m_:
            ref["targs"] = dict(ref.get("targs") or {}, **m_.groupdict())

    def _is_input(self, a, env):
        a = strip_refs(a)
        return a["k"] == "path" and len(a["segs"]) == 1 and a["segs"][0] == env.get("__input")

    def _maybe_parser_value(self, e, env):
        """`let invalid = cut_err(fail.context(..));` — a parser bound to a name."""
        if e is None:
            return None
        if e["k"] in ("call", "mcall", "macro"):
            ir = self.pe(e, env)
            if ir["t"] != "opaque":
                return ir
        return None

    # ---------------------------------------------------------- type helpers
    def subst_ty(self, ty, env):
        ty = F.norm_ty(ty)
        ts = env.get("__tsubst", {})
        if ty in ts:
            return ts[ty]
        # substitute inside generics
        def rep(m):
            return ts.get(m.group(0), m.group(0))

        out = re.sub(r"[A-Za-z_][A-Za-z0-9_]*", rep, ty)
        # a crate type alias without parameters stands for its definition (`type MinDefault = Defaulted<Minutes>;`)
        for _ in range(3):
            al = self.facts.types.get(out)
            if al is None or (al.get("generics") or "").strip("<> "):
                break
            out = F.norm_ty(al["ty"])
        return out

    def _resolve_fn_path(self, p, env):
        """Resolve a path expression that names a parser function. Returns (fnkey, tsubst) or None."""
        segs, gen = p["segs"], p["gen"]
        module = env["__module"]
        if len(segs) == 1:
            r = self.scope(module).get(segs[0])
            if r and r[0] == "fn":
                fn = self.facts.fns[r[1]]
                ts = {}
                gens = F.generic_params(fn.node.get("generics"))
                if gen[0] and gens:
                    ts = dict(zip(gens, [self.subst_ty(g, env) for g in gen[0]]))
                return r[1], ts
            return None
        r = self.resolve_path(segs, module)
        if r and r[0] == "fn":
            return r[1], {}
        if r and r[0] == "typed":
            # Type::method  (trait-static call)
            tyname = segs[0]
            ty = tyname + ("<%s>" % ",".join(gen[0]) if gen[0] else "")
            ty = self.subst_ty(ty, env)
            method = segs[-1]
            if len(segs) != 2:
                return None
            # inherent
            k = "%s::%s" % (ty, method)
            if k in self.facts.fns:
                return k, {}
            cands = []
            for key, fn in self.facts.fns.items():
                m = re.match(r"<(.+) as ([A-Za-z0-9_]+)(<.*>)?>::%s$" % re.escape(method), key)
                if not m:
                    continue
                st = m.group(1)
                if st == ty:
                    cands.append((key, {}))
                else:
                    head = ty.split("<")[0]
                    if st.split("<")[0] == head and "<" in st and fn.impl is not None:
                        gens = re.findall(r"[A-Za-z_][A-Za-z0-9_]*", (fn.impl.get("generics") or "").split(":")[0]) or re.findall(
                            r"[A-Za-z_][A-Za-z0-9_]*", fn.impl.get("generics") or ""
                        )
                        params = F.split_generics(st[len(head) + 1 : -1])
                        args = F.split_generics(ty[len(head) + 1 : -1]) if "<" in ty else []
                        if len(params) == len(args) and all(p in gens for p in params):
                            cands.append((key, dict(zip(params, args))))
            if len(cands) == 1:
                return cands[0]
        return None

    # ---------------------------------------------------------- normalisation helpers
    def resolve_const(self, e, env, kinds=("lit",)):
        """A path naming a `const` of the crate stands for its literal value (with `kinds`: for a value of one of these
        expression kinds — a character range, an array or a tuple of characters used as a character class)."""
        e0 = strip_refs(e)
        if isinstance(e0, dict) and e0.get("k") == "path" and not (len(e0["segs"]) == 1 and e0["segs"][0] in env and not e0["segs"][0].startswith("__")):
            name = e0["segs"][-1]
            mod = tuple(env.get("__module") or ())

            def val(v):
                x = strip_refs(v["e"])
                while isinstance(x, dict) and x.get("k") == "paren":
                    x = strip_refs(x["e"])
                return x if isinstance(x, dict) and x.get("k") in kinds else None

            if len(e0["segs"]) == 1:
                # lexical lookup: the enclosing module first, then its ancestors
                for i in range(len(mod), -1, -1):
                    v = self.facts.consts.get("::".join(mod[:i] + (name,)))
                    if v is not None:
                        return val(v) or e
            cands = [v for k, v in self.facts.consts.items() if k.split("::")[-1] == name]
            if len(cands) == 1 and val(cands[0]) is not None:
                return val(cands[0])
        return e

    def as_closure(self, e, env):
        """A path to a local function used as a function value is replaced by an equivalent closure node
        (|params| body), so closures and named functions are analysed the same way."""
        e0 = strip_refs(e)
        if not (isinstance(e0, dict) and e0.get("k") == "path"):
            return e
        if len(e0["segs"]) == 1 and e0["segs"][0] in env and not e0["segs"][0].startswith("__"):
            return e
        rf = self._resolve_fn_path(e0, env)
        key = rf[0] if rf else None
        if key is None and len(e0["segs"]) >= 2:
            k2 = "::".join(e0["segs"][-2:])
            key = k2 if k2 in self.facts.fns else None
        if key is None or key not in self.facts.fns:
            return e
        fn = self.facts.fns[key]
        if fn.node.get("self") is not None:
            return e
        if self._input_name(fn) is not None and len(fn.params) == 1 and F.norm_ty(fn.node["output"]).startswith("PResult"):
            return e  # a parser, not a plain function value
        return {"k": "closure", "l": e0.get("l"), "params": [i["pat"] for i in fn.node["inputs"]], "body": fn.body, "move": False, "from_fn": key}

    # ---------------------------------------------------------- parser expressions
    def pe(self, e, env):
        k = e["k"]
        if k == "lit":
            if e["t"] in ("str", "char"):
                return N("lit", e, s=e["v"])
            return N("opaque", e, src=src(e))
        if k == "ref":
            return self.pe(e["e"], env)
        if k == "path":
            return self._pe_path(e, env)
        if k == "tuple":
            return N("seq", e, items=[{"p": self.pe(x, env), "keep": True} for x in e["elems"]], tuple=True)
        if k == "call":
            return self._pe_call(e, env)
        if k == "mcall":
            return self._pe_mcall(e, env)
        if k == "macro":
            if e.get("name") == "dispatch" and "arms" in e and "scrut" in e:
                d = self._pe_dispatch(e, env)
                if d is not None:
                    return d
            if "expanded" in e:
                ir = self.pe(e["expanded"], env)
                ir = dict(ir)
                ir["macro"] = e["name"]
                ir["macro_args"] = e.get("args")
                return ir
            return N("opaque", e, src=src(e))
        if k == "block" and len(e["stmts"]) == 1 and e["stmts"][0]["k"] == "expr":
            return self.pe(e["stmts"][0]["e"], env)
        return N("opaque", e, src=src(e))

    def _pe_dispatch(self, e, env):
        """winnow's `dispatch!{ SCRUT; pat => parser, .. }` where SCRUT looks at (or takes) one character: the arm is chosen by
        that character, so the whole is an ordered choice of `guard, parser` pairs whose guards exclude each other — the guard
        of `Some('c')` / `'c'` is that character (peeked, or consumed when SCRUT consumes), the guard of the catch-all is
        "any other character" (and the end of the input when SCRUT is optional)."""
        sp = self.pe(e["scrut"], env)
        optional = sp["t"] == "alt" and sp.get("opt") and sp["alts"]
        core = sp["alts"][0] if optional else sp
        peeked = core["t"] == "peek"
        if peeked:
            core = core["p"]
        if core["t"] != "any" or (optional and not peeked):
            return None

        def chars_of(p):
            """(set of characters | None for a catch-all, is_none) of an arm pattern; False when not understood"""
            while p["k"] in ("paren", "typed", "ref"):
                p = p["pat"]
            if optional:
                if p["k"] == "tstruct" and p["segs"] == ["Some"] and len(p["elems"]) == 1:
                    r = chars_of_plain(p["elems"][0])
                    return False if r is False else (r, False)
                if (p["k"] == "ident" and p["name"] == "None") or (p["k"] == "path" and p["segs"] == ["None"]):
                    return (frozenset(), True)
                if p["k"] == "wild" or (p["k"] == "ident" and p.get("sub") is None):
                    return (None, True)
                return False
            r = chars_of_plain(p)
            return False if r is False else (r, False)

        def chars_of_plain(p):
            while p["k"] in ("paren", "typed", "ref"):
                p = p["pat"]
            if p["k"] == "lit" and p.get("t") == "char":
                return frozenset([p["v"]])
            if p["k"] == "or":
                out = set()
                for c_ in p["cases"]:
                    r = chars_of_plain(c_)
                    if r is False or r is None:
                        return False
                    out |= r
                return frozenset(out)
            if p["k"] == "wild" or (p["k"] == "ident" and p.get("sub") is None and p["name"] != "None"):
                return None
            return False

        seen = set()
        alts = []
        for arm in e["arms"]:
            if arm.get("guard") is not None:
                return None
            r = chars_of(arm["pat"])
            if r is False:
                return None
            chars, with_end = r
            body = self.pe(arm["body"], env)
            if chars is None:
                g_ = N("set", e, cs=cs_notin(seen), min=1, max=1, one=True)
            else:
                mine = frozenset(chars) - seen
                seen |= set(chars)
                g_ = N("set", e, cs=cs_in(mine), min=1, max=1, one=True) if mine else None
            guards = []
            if g_ is not None:
                guards.append(N("peek", e, p=g_) if peeked else g_)
            if with_end and optional:
                guards.append(N("eof", e))
            if not guards:
                continue
            guard = guards[0] if len(guards) == 1 else N("alt", e, alts=guards)
            alts.append(N("seq", e, items=[{"p": guard, "keep": False}, {"p": body, "keep": True}], dispatch_arm=True))
            if chars is None:
                break
        return N("alt", e, alts=alts, dispatch=True)

    def _pe_path(self, e, env):
        segs = e["segs"]
        if len(segs) == 1 and segs[0] in env and not segs[0].startswith("__"):
            v = env[segs[0]]
            return v
        r = self.resolve_path(segs, env["__module"])
        if r and r[0] == "winnow":
            leaf = WINNOW_LEAVES.get(r[1])
            if leaf:
                if leaf[0] == "set":
                    return N("set", e, cs=named_set(leaf[1]), min=leaf[2], max=None, name=leaf[1])
                return N(leaf[0], e)
            return N("opaque", e, src=src(e), why="unmodelled winnow item " + r[1])
        rf = self._resolve_fn_path(e, env)
        if rf:
            return N("ref", e, fn=rf[0], targs=rf[1], extra=[])
        cst = self.resolve_const(e, env)
        if cst is not e and cst.get("k") == "lit" and cst.get("t") in ("str", "char"):
            return N("lit", e, s=cst["v"])
        return N("opaque", e, src=src(e), why="unresolved path")

    def _table_alts(self, a, env):
        """`TABLE.map(|(kw, v)| literal(kw).value(v))` with TABLE a constant array of the crate: one parser per row, the
        closure's parameters replaced by the row's components (an array of parsers is what winnow's `alt` takes)."""
        from .normalise import _subst_var

        a = rx.peel(a)
        if not (a.get("k") == "mcall" and a["m"] == "map" and len(a["args"]) == 1 and a["args"][0].get("k") == "closure" and len(a["args"][0]["params"]) == 1):
            return None
        base = rx.peel(a["recv"])
        while base.get("k") == "mcall" and base["m"] in ("iter", "into_iter", "clone", "to_owned", "copied", "cloned") and not base["args"]:
            base = rx.peel(base["recv"])
        tab = None
        if base.get("k") == "array":
            tab = base
        elif base.get("k") == "path":
            tgt = rx.CONST_REG.get("::".join(base["segs"])) or rx.CONST_REG.get(base["segs"][-1])
            tgt = rx.peel(tgt) if isinstance(tgt, dict) else None
            if tgt is not None and tgt.get("k") == "ref":
                tgt = rx.peel(tgt.get("e"))
            if tgt is not None and tgt.get("k") == "array":
                tab = tgt
        if tab is None or not tab.get("elems"):
            return None
        clo = a["args"][0]
        pat = clo["params"][0]
        while isinstance(pat, dict) and pat.get("k") in ("typed", "ref", "paren"):
            pat = pat.get("pat")
        out = []
        for row in tab["elems"]:
            body = clo["body"]
            r0 = rx.peel(row)
            if pat.get("k") == "ident":
                body = _subst_var(body, pat["name"], row)
            elif pat.get("k") == "tuple" and r0.get("k") == "tuple" and len(pat["elems"]) == len(r0["elems"]):
                for pe_, re_ in zip(pat["elems"], r0["elems"]):
                    q = pe_
                    while isinstance(q, dict) and q.get("k") in ("typed", "ref", "paren"):
                        q = q.get("pat")
                    if q.get("k") == "ident":
                        body = _subst_var(body, q["name"], re_)
                    elif q.get("k") != "wild":
                        return None
            else:
                return None
            out.append(self.pe(body, env))
        return out

    def _range(self, e):
        """winnow Range argument -> (min, max) or None"""
        if e["k"] == "lit" and e["t"] == "int":
            return (int(e["v"]), int(e["v"]))
        if e["k"] == "range":
            # the bounds are integer constants: literals, or named constants / constant expressions of the crate
            lo = 0
            hi = None
            if e["from"] is not None:
                lo = rx.int_const(e["from"])
                if lo is None:
                    return None
            if e["to"] is not None:
                hi = rx.int_const(e["to"])
                if hi is None:
                    return None
                if not e["closed"]:
                    hi -= 1
            return (lo, hi)
        n_ = rx.int_const(e) if e.get("k") == "path" else None
        if n_ is not None:
            return (n_, n_)
        if e.get("k") == "path":
            # `const OCTAL_LEN: RangeInclusive<usize> = 3..=4;`
            tgt = rx.CONST_REG.get("::".join(e["segs"])) or rx.CONST_REG.get(e["segs"][-1])
            if isinstance(tgt, dict) and tgt.get("k") == "range":
                return self._range(tgt)
        return None

    def _pe_call(self, e, env):
        f = e["f"]
        args = e["args"]
        if f["k"] != "path":
            return N("opaque", e, src=src(e))
        r = self.resolve_path(f["segs"], env["__module"]) if not (len(f["segs"]) == 1 and f["segs"][0] in env) else None
        if r and r[0] == "winnow":
            name = r[1]
            short = name.split("::")[-1]
            if name not in WINNOW_COMB:
                return N("opaque", e, src=src(e), why="unmodelled winnow combinator " + name)
            node = self._pe_winnow(e, env, short, args)
            if isinstance(node, dict) and node.get("t") != "opaque":
                node = dict(node, comb=short)
            return node
        return self._pe_call_local(e, env, f, args)

    def _pe_winnow(self, e, env, short, args):
        if True:
            if short == "alt":
                if len(args) == 1 and args[0]["k"] == "tuple":
                    return N("alt", e, alts=[self.pe(a, env) for a in args[0]["elems"]])
                if len(args) == 1 and args[0]["k"] == "array":
                    return N("alt", e, alts=[self.pe(a, env) for a in args[0]["elems"]])
                tm = self._table_alts(args[0], env) if len(args) == 1 else None
                if tm is not None:
                    return N("alt", e, alts=tm)
                return N("opaque", e, src=src(e))
            if short == "cut_err":
                return N("cut", e, p=self.pe(args[0], env))
            if short == "preceded":
                return N("seq", e, items=[{"p": self.pe(args[0], env), "keep": False}, {"p": self.pe(args[1], env), "keep": True}])
            if short == "terminated":
                return N("seq", e, items=[{"p": self.pe(args[0], env), "keep": True}, {"p": self.pe(args[1], env), "keep": False}])
            if short == "delimited":
                return N(
                    "seq",
                    e,
                    items=[
                        {"p": self.pe(args[0], env), "keep": False},
                        {"p": self.pe(args[1], env), "keep": True},
                        {"p": self.pe(args[2], env), "keep": False},
                    ],
                )
            if short == "separated_pair":
                return N(
                    "seq",
                    e,
                    items=[
                        {"p": self.pe(args[0], env), "keep": True},
                        {"p": self.pe(args[1], env), "keep": False},
                        {"p": self.pe(args[2], env), "keep": True},
                    ],
                    tuple=True,
                )
            if short in ("repeat", "repeat_till", "separated"):
                rg = self._range(args[0])
                if rg is None:
                    return N("opaque", e, src=src(e), why="range not literal")
                if short == "repeat":
                    return N("rep", e, min=rg[0], max=rg[1], p=self.pe(args[1], env))
                if short == "repeat_till":
                    return N("reptill", e, min=rg[0], max=rg[1], p=self.pe(args[1], env), stop=self.pe(args[2], env))
                return N("sep", e, min=rg[0], max=rg[1], p=self.pe(args[1], env), sep=self.pe(args[2], env))
            if short == "opt":
                return N("alt", e, alts=[self.pe(args[0], env), N("seq", e, items=[])], opt=True)
            if short == "peek":
                return N("peek", e, p=self.pe(args[0], env))
            if short == "not":
                inner = self.pe(args[0], env)
                i0 = inner
                while i0["t"] in ("ctx", "cut"):
                    i0 = i0["p"]
                if i0["t"] == "set" and i0.get("min") == 1 and i0.get("max") == 1:
                    # not(one character of S)  ≡  peek(one character outside S, or the end of input)
                    return N("peek", e, p=N("alt", e, alts=[N("set", e, cs=cs_compl(i0["cs"]), min=1, max=1, one=True), N("eof", e)]), from_not=True)
                return N("notp", e, p=inner)
            if short == "literal":
                a = self.resolve_const(args[0], env)
                if a["k"] == "lit" and a["t"] in ("str", "char"):
                    return N("lit", e, s=a["v"])
                return N("opaque", e, src=src(e))
            if short in ("one_of", "none_of"):
                st = self.pred(args[0], env)
                if st is None:
                    return N("opaque", e, src=src(e), why="predicate not evaluable")
                if st[0] == "tok":
                    return N("tokset", e, toks=st[1], neg=(short == "none_of"))
                cs = st[1] if short == "one_of" else cs_compl(st[1])
                return N("set", e, cs=cs, min=1, max=1, one=True)
            if short in ("take_while", "take_till"):
                rg = self._range(args[0])
                st = self.pred(args[1], env)
                if rg is None or st is None or st[0] != "cs":
                    return N("opaque", e, src=src(e), why="range/predicate not evaluable")
                cs = st[1] if short == "take_while" else cs_compl(st[1])
                return N("set", e, cs=cs, min=rg[0], max=rg[1])
            if short == "take_until":
                rg = self._range(args[0])
                a = self.resolve_const(args[1], env)
                if rg is None or a["k"] != "lit":
                    return N("opaque", e, src=src(e))
                return N("until", e, min=rg[0], max=rg[1], s=a["v"])
        return N("opaque", e, src=src(e), why="winnow combinator %s not handled" % short)

    def _pe_call_local(self, e, env, f, args):
        # local function returning a parser: quote_delimiter()
        rf = self._resolve_fn_path(f, env)
        if rf and not args and not rf[1]:
            fn = self.facts.fns[rf[0]]
            if self._input_name(fn) is None and "Parser<" in F.norm_ty(fn.node["output"]):
                body = self.fn_ir(rf[0], rf[1])
                if body.get("returns_parser"):
                    return N("ref", e, fn=rf[0], targs=rf[1], extra=[], inline=True)
        # a local function *building* a parser from its arguments (what `unary!`-style macros become when written as
        # generic functions): expanded like a macro — the body with the parameters replaced by the argument expressions
        if rf and (args or rf[1]):
            fn = self.facts.fns[rf[0]]
            if self._input_name(fn) is None and "Parser<" in F.norm_ty(fn.node["output"]) and len(fn.params) == len(args) and all(n for n, _ in fn.params):
                real = [s_ for s_ in fn.body["stmts"] if s_["k"] != "item"]
                lets_ok = bool(real) and real[-1]["k"] == "expr" and not real[-1].get("semi") and all(s_["k"] == "let" and s_["pat"].get("k") == "ident" and s_.get("init") is not None and s_.get("else") is None for s_ in real[:-1])
                if lets_ok and len(self.stack) < 40:
                    from .normalise import _subst

                    # parameters, then the let-bound sub-parsers in order, are replaced by what they stand for
                    sub = {n: a for (n, _), a in zip(fn.params, args)}
                    for s_ in real[:-1]:
                        sub[s_["pat"]["name"]] = _subst(s_["init"], sub)
                    body = _subst(real[-1]["e"], sub)
                    mk = ("expand", rf[0])
                    if self.stack.count(mk) < 3:
                        self.stack.append(mk)
                        try:
                            # arguments are written in the caller's scope, the body in the callee's: both are searched
                            env2 = dict(env)
                            if rf[1]:
                                # type parameters given at the call (`primary::<Test>()`)
                                env2["__tsubst"] = dict(env.get("__tsubst") or {}, **rf[1])
                            if tuple(fn.module) != tuple(env["__module"]):
                                env2["__module_fallback"] = env["__module"]
                                env2["__module"] = fn.module
                            node = self.pe(body, env2)
                        finally:
                            self.stack.pop()
                        return dict(node, expanded_from=rf[0]) if isinstance(node, dict) else node
        # context helpers are handled in mcall; constructor calls etc are not parsers
        return N("opaque", e, src=src(e), why="not a parser call")

    def _ctx_arg(self, a, env):
        """label("x") / expected("x") -> (kind, text)"""
        if a["k"] == "call" and a["f"]["k"] == "path" and len(a["args"]) == 1:
            a = dict(a, args=[self.resolve_const(a["args"][0], env)])
        if a["k"] == "call" and a["f"]["k"] == "path" and len(a["args"]) == 1 and a["args"][0]["k"] == "lit":
            r = self.resolve_path(a["f"]["segs"], env["__module"])
            name = a["f"]["segs"][-1]
            if r and r[0] == "fn":
                # follow the helper's definition: StrContext::Label(name) / StrContext::Expected(..)
                fn = self.facts.fns[r[1]]
                body = src(fn.body)
                if "StrContext::Label" in body and "Expected" not in body:
                    return ("label", a["args"][0]["v"])
                if "StrContext::Expected" in body:
                    return ("expected", a["args"][0]["v"])
                return None
            if name == "Label":
                return ("label", a["args"][0]["v"])
        if a["k"] == "call" and a["f"]["k"] == "path" and a["f"]["segs"][-1] == "Label" and a["args"] and a["args"][0]["k"] == "lit":
            return ("label", a["args"][0]["v"])
        return None

    def _pe_mcall(self, e, env):
        m = e["m"]
        recv = e["recv"]
        args = e["args"]
        if m in ("map", "try_map", "verify") and len(args) == 1:
            args = [self.as_closure(args[0], env)]
        if m == "fold" and len(args) == 2:
            args = [args[0], self.as_closure(args[1], env)]
        if m == "context" and len(args) == 1:
            c = self._ctx_arg(args[0], env)
            p = self.pe(recv, env)
            if c is None:
                return N("ctx", e, kind="unknown", s=src(args[0]), p=p)
            return N("ctx", e, kind=c[0], s=c[1], p=p)
        if m == "map" and len(args) == 1:
            f0 = strip_refs(args[0]) if isinstance(args[0], dict) else args[0]
            if isinstance(f0, dict) and f0.get("k") == "closure" and len(f0.get("params", [])) == 1:
                # `.map(|x| x)`: the identity (what is left of `.map(|x| { log::debug!(..); x })`)
                pp, bb = f0["params"][0], f0["body"]
                while isinstance(pp, dict) and pp.get("k") == "typed":
                    pp = pp["pat"]
                while isinstance(bb, dict) and bb.get("k") == "paren":
                    bb = bb["e"]
                if isinstance(pp, dict) and pp.get("k") == "ident" and not pp.get("by_ref") and isinstance(bb, dict) and bb.get("k") == "path" and bb.get("segs") == [pp["name"]]:
                    return self.pe(recv, env)
                # `(a, b, c).map(|(_, x, _)| BODY)`: a tuple of parsers whose results are all dropped but one is
                # `delimited(a, b, c)` / `preceded` / `terminated` — the sequence with that one item kept — mapped by |x| BODY
                # (and just the sequence when BODY is x)
                inner = self.pe(recv, env)
                if isinstance(pp, dict) and pp.get("k") == "tuple" and isinstance(inner, dict) and inner.get("t") == "seq" and inner.get("tuple") and len(pp["elems"]) == len(inner["items"]):
                    names = []
                    for el in pp["elems"]:
                        q_ = el
                        while isinstance(q_, dict) and q_.get("k") in ("typed", "ref"):
                            q_ = q_["pat"]
                        names.append(q_.get("name") if q_.get("k") == "ident" and not q_.get("sub") else (None if q_.get("k") == "wild" else False))
                    bound = [i_ for i_, n_ in enumerate(names) if n_]
                    if False not in names and len(bound) == 1:
                        seq = dict(inner, items=[dict(it_, keep=(i_ == bound[0])) for i_, it_ in enumerate(inner["items"])])
                        seq.pop("tuple", None)
                        if isinstance(bb, dict) and bb.get("k") == "path" and bb.get("segs") == [names[bound[0]]]:
                            return seq
                        f1 = dict(f0, params=[pp["elems"][bound[0]]])
                        return N("map", e, p=seq, f=f1)
                return N("map", e, p=inner, f=args[0])
            return N("map", e, p=self.pe(recv, env), f=args[0])
        if m == "value" and len(args) == 1:
            return N("value", e, p=self.pe(recv, env), v=args[0])
        if m == "try_map" and len(args) == 1:
            return N("trymap", e, p=self.pe(recv, env), f=args[0])
        if m == "verify" and len(args) == 1:
            return N("verify", e, p=self.pe(recv, env), f=args[0])
        if m == "verify_map" and len(args) == 1:
            # map + verify in one: succeeds where f yields Some, with that value
            p = self.pe(recv, env)
            one = p["t"] == "any" or (p["t"] == "set" and p.get("one"))
            if one:
                cs = self._some_set(args[0], env, p)
                if cs is not None:
                    node = N("set", e, cs=cs, min=1, max=1, one=True, vmap=args[0], vmod=tuple(env["__module"]))
                    table = self._unit_values(args[0], env, cs)
                    if table is not None:
                        # every accepted character yields a constant: the same as alt((c1.value(V1), c2.value(V2), ..))
                        return N("alt", e, alts=[N("value", e, p=N("lit", e, s=c_), v=v_) for c_, v_ in table], from_verify_map=node)
                    return node
            if p["t"] == "any":
                ts = self._some_tokens(args[0], env)
                if ts is not None:
                    return N("tokset", e, toks=ts, neg=False, vmap=args[0], vmod=tuple(env["__module"]))
            tv = self._tuple_verify_map(e, p, args[0], env)
            if tv is not None:
                return tv
            return N("verify", e, p=p, f=args[0], vmap=True)
        if m == "and_then" and len(args) == 1:
            return N("andthen", e, outer=self.pe(recv, env), inner=self.pe(args[0], env))
        if m == "fold" and len(args) == 2:
            return N("fold", e, p=self.pe(recv, env), init=args[0], step=args[1])
        if m in ("void",):
            inner_v = self.pe(recv, env)
            if isinstance(inner_v, dict) and inner_v.get("t") in ("peek", "notp", "eof"):
                return inner_v  # a look-ahead consumes nothing and is used for success or failure only: its value is immaterial
            return N("value", e, p=inner_v, v=None)
        if m in ("recognize", "take") and not args:
            return N("recognize", e, p=self.pe(recv, env))
        if m == "by_ref" and not args:
            return self.pe(recv, env)
        mb = self._pe_method_builder(e, env)
        if mb is not None:
            return mb
        return N("opaque", e, src=src(e), why="unmodelled method ." + m)

    def _value_ast(self, v, l=None):
        """expression node denoting a concrete value computed by vlib/probe.py (texts, characters, numbers, field-less enum
        variants, tuples of those), or None"""
        if isinstance(v, bool):
            return {"k": "lit", "l": l, "t": "bool", "v": v}
        if isinstance(v, int):
            return {"k": "lit", "l": l, "t": "int", "v": v}
        if isinstance(v, str):
            return {"k": "lit", "l": l, "t": "str", "v": v}
        if isinstance(v, tuple) and len(v) == 3 and v[0] == "enum" and not v[2] and "::" in v[1]:
            return {"k": "path", "l": l, "segs": v[1].split("::")[-2:], "gen": [[], []], "qself": None, "global": False}
        if isinstance(v, list):
            xs = [self._value_ast(x, l) for x in v]
            return None if any(x is None for x in xs) else {"k": "tuple", "l": l, "elems": xs}
        return None

    def _pe_method_builder(self, e, env):
        """`Connective::Or.parser()`: a method of one of the crate's enums, called on a field-less variant, that *builds* a
        parser.  Expanded like a parser-building function: the body with `self` (and the parameters) replaced by what they
        stand for; `let` statements computing plain values from them (`let (long, short) = self.spellings();`) are evaluated."""
        recv, m, args = e["recv"], e["m"], e["args"]
        if not (recv.get("k") == "path" and len(recv["segs"]) >= 2):
            return None
        en, var = recv["segs"][-2], recv["segs"][-1]
        if en not in self.facts.enums or var not in self.facts.variants(en) or self.facts.variant_fields(en, var):
            return None
        fn = self.facts.fns.get("%s::%s" % (en, m))
        if fn is None or fn.test or fn.node.get("self") is None or "Parser<" not in F.norm_ty(fn.node["output"]) or self._input_name(fn) is not None:
            return None
        params = [n_ for n_, _ in fn.params if n_ != "self"]
        if len(params) != len(args) or not all(params) or len(self.stack) >= 40:
            return None
        from .normalise import _subst
        from . import probe as P

        real = [s_ for s_ in fn.body["stmts"] if s_["k"] != "item"]
        if not real or real[-1]["k"] != "expr" or real[-1].get("semi"):
            return None
        sub = {"self": recv}
        sub.update({n_: a_ for n_, a_ in zip(params, args)})
        for s_ in real[:-1]:
            if s_["k"] != "let" or s_.get("init") is None or s_.get("else") is not None:
                return None
            init = _subst(s_["init"], sub)
            pat = s_["pat"]
            while pat["k"] == "typed":
                pat = pat["pat"]
            if pat["k"] == "ident" and self._maybe_parser_value(init, dict(env, __module=fn.module)) is not None:
                sub[pat["name"]] = init
                continue
            # a value: computed now
            try:
                pr = P.Probe(self.facts, en, tuple(fn.module))
                val = pr.ev(init, {})
                bound = pr.pmatch(s_["pat"], val, {})
            except (P.NoEval, P.Panic):
                return None
            if bound is None:
                return None
            for n_, v_ in bound.items():
                ast_ = self._value_ast(v_, s_.get("l"))
                if ast_ is None:
                    return None
                sub[n_] = ast_
        body = _subst(real[-1]["e"], sub)
        mk = ("expand", fn.key)
        if self.stack.count(mk) >= 3:
            return None
        self.stack.append(mk)
        try:
            env2 = dict(env)
            if tuple(fn.module) != tuple(env["__module"]):
                env2["__module_fallback"] = env["__module"]
                env2["__module"] = fn.module
            node = self.pe(body, env2)
        finally:
            self.stack.pop()
        return dict(node, expanded_from=fn.key) if isinstance(node, dict) else node

    def _tuple_verify_map(self, e, p, f, env):
        """`(A, any, ..).verify_map(|(a, c, ..)| match c { 'x' => Some(..), _ => None })`: whether the function yields Some
        depends on the one unconstrained character only (decided by evaluating it with the other components unknown); the
        whole is then the tuple with that character restricted to the accepted set, mapped by the function's Some-value."""
        if not (p["t"] == "seq" and p.get("tuple") and f.get("k") == "closure" and len(f["params"]) == 1):
            return None
        idx = [i for i, it in enumerate(p["items"]) if it["p"]["t"] == "any"]
        if len(idx) != 1:
            return None
        from . import probe as P

        k_ = idx[0]

        def wrap(c_):
            return [c_ if i == k_ else P.Opq("component %d" % i) for i in range(len(p["items"]))]

        cs = self._some_set(f, env, p["items"][k_]["p"], wrap=wrap)
        if cs is None:
            return None
        items = [dict(it) for it in p["items"]]
        items[k_] = dict(items[k_], p=N("set", e, cs=cs, min=1, max=1, one=True))
        body = {"k": "mcall", "l": f.get("l"), "recv": f["body"], "m": "unwrap", "targs": [], "args": []}
        f2 = dict(f, body=body)
        return N("map", e, p=dict(p, items=items), f=f2, from_verify_map=True)

    def _unit_values(self, f, env, cs):
        """[(char, path expression of the constant)] when the function maps every accepted character to a field-less enum
        variant (in source order of the characters' first mention), else None."""
        from . import probe as P

        if cs[0] != "in" or not (0 < len(cs[1]) <= 16):
            return None
        pr = P.Probe(self.facts, None, tuple(env["__module"]))
        order = []
        for n_ in F.find_all(f, lambda n_: n_.get("k") == "lit" and n_.get("t") in ("char", "str")):
            for ch in n_["v"]:
                if ch in cs[1] and ch not in order:
                    order.append(ch)
        order += [ch for ch in sorted(cs[1]) if ch not in order]
        out = []
        try:
            fv = pr.ev(f, {})
            for ch in order:
                r = pr.apply(fv, [ch])
                if not (isinstance(r, tuple) and r and r[0] == "some" and isinstance(r[1], tuple) and r[1][0] == "enum" and not r[1][2]):
                    return None
                en, var = r[1][1].split("::")[-2:] if "::" in r[1][1] else (None, None)
                if en is None or en not in self.facts.enums or var not in self.facts.variants(en) or self.facts.variant_fields(en, var):
                    return None
                out.append((ch, {"k": "path", "l": f.get("l"), "segs": [en, var], "gen": [[], []], "qself": None, "global": False}))
        except (P.NoEval, P.Panic, KeyError):
            return None
        return out

    def _some_tokens(self, f, env):
        """Token variants on which a Token -> Option<_> function yields Some (payloads unknown), or None."""
        from . import probe as P

        if "Token" not in self.facts.enums:
            return None
        pr = P.Probe(self.facts, None, tuple(env["__module"]))
        out = []
        try:
            fv = pr.ev(f, {})
            for v in self.facts.variants("Token"):
                tok = ("enum", "Token::%s" % v, [P.Opq("payload") for _ in self.facts.variant_fields("Token", v)])
                r = pr.apply(fv, [tok])
                if r is None:
                    continue
                if isinstance(r, tuple) and r and r[0] == "some":
                    out.append(v)
                else:
                    return None
        except (P.NoEval, P.Panic, KeyError):
            return None
        return out

    def _some_set(self, f, env, p, wrap=None):
        """The characters on which a char -> Option<_> function yields Some.  The function is evaluated (vlib/probe.py) on
        every character it or its helpers mention and on fresh representatives of every other kind of character; it is a
        finite set exactly when every fresh representative is refused."""
        from . import probe as P

        pr = P.Probe(self.facts, None, tuple(env["__module"]))
        try:
            fv = pr.ev(f, {})
        except P.NoEval:
            return None
        mentioned = set()

        def lits(node, seen):
            for n_ in F.find_all(node, lambda n_: n_.get("k") == "lit" and n_.get("t") in ("char", "str")):
                mentioned.update(n_["v"])
            for n_ in F.find_all(node, lambda n_: n_.get("k") in ("call", "path")):
                segs = (n_["f"]["segs"] if n_["k"] == "call" and n_["f"].get("k") == "path" else n_.get("segs")) or []
                fn = pr.find_fn(segs) if segs else None
                if fn is not None and fn.key not in seen:
                    seen.add(fn.key)
                    old_mod = pr.module
                    pr.module = tuple(fn.module)
                    try:
                        lits(fn.body, seen)
                    finally:
                        pr.module = old_mod
                elif n_["k"] == "path" and segs and segs[-1][:1].isupper():
                    # a table kept in a constant
                    try:
                        ce = pr.const(segs[-1])
                    except P.NoEval:
                        ce = None
                    if ce is not None and ("const", id(ce)) not in seen:
                        seen.add(("const", id(ce)))
                        lits(ce, seen)

        lits(f, set())
        fresh = [c_ for c_ in "qQ7 _~\t\u00e9\u20ac" if c_ not in mentioned]
        base = p["cs"] if p["t"] == "set" else cs_notin([])
        acc, rej = [], []
        try:
            for c_ in sorted(mentioned) + fresh:
                if not cs_has(base, c_):
                    continue
                r = pr.apply(fv, [c_ if wrap is None else wrap(c_)])
                if r is None:
                    rej.append(c_)
                elif isinstance(r, tuple) and r and r[0] == "some":
                    acc.append(c_)
                else:
                    return None
        except (P.NoEval, KeyError):
            return None
        if all(c_ in rej for c_ in fresh if cs_has(base, c_)):
            return cs_in(acc)
        return None

    # ---------------------------------------------------------- predicates
    def pred(self, a, env):
        """Evaluate the argument of take_while/one_of: ('cs', charset) | ('tok', [variant names]) | None"""
        a = strip_refs(a)
        a = self.as_closure(a, env)
        self._pred_env = env
        k = a["k"]
        if k == "lit":
            if a["t"] == "char":
                return ("cs", cs_in([a["v"]]))
            return None
        if k == "tuple":
            cs = cs_in([])
            for x in a["elems"]:
                s = self.pred(x, env)
                if s is None or s[0] != "cs":
                    return None
                cs = cs_union(cs, s[1])
            return ("cs", cs)
        if k == "array":
            return self.pred(dict(a, k="tuple"), env)
        if k == "range" and a["from"] is not None and a["to"] is not None and a["from"].get("t") == "char" and a["to"].get("t") == "char":
            lo, hi = ord(a["from"]["v"]), ord(a["to"]["v"]) + (1 if a["closed"] else 0)
            return ("cs", cs_in(chr(c) for c in range(lo, hi)))
        if k == "path":
            cst_ = self.resolve_const(a, env, kinds=("lit", "range", "array", "tuple"))
            if cst_ is not a and cst_.get("k") in ("lit", "range", "array", "tuple"):
                # a named character class: `const OCTAL_DIGIT: RangeInclusive<char> = '0'..='7';`
                return self.pred(cst_, env)
            segs = a["segs"]
            if segs[-1] == "is_alpha" and "AsChar" in segs:
                return ("cs", cs_in(ALPHA))
            if segs[-1] == "is_dec_digit" and "AsChar" in segs:
                return ("cs", cs_in(DIGIT))
            if len(segs) == 2 and segs[0] == "Token":
                return ("tok", [segs[1]])
            return None
        if k == "closure" and len(a["params"]) == 1:
            p = a["params"][0]
            while p["k"] in ("typed", "ref"):
                p = p["pat"]
            if p["k"] != "ident":
                return None
            var = p["name"]
            body = a["body"]
            if body["k"] == "block" and len(body["stmts"]) == 1 and body["stmts"][0]["k"] == "expr":
                body = body["stmts"][0]["e"]
            if body["k"] == "match" and strip_refs(body["scrut"]).get("k") == "path" and strip_refs(body["scrut"])["segs"] == [var]:
                # exhaustive `match t { Token::A(_) | .. => true, .. => false }`
                yes, ok_ = [], True
                for arm in body["arms"]:
                    bval = strip_refs(arm["body"])
                    names = self._tok_pat(arm["pat"])
                    if bval.get("k") == "lit" and bval.get("t") == "bool" and names is not None and arm["guard"] is None:
                        if bval["v"]:
                            yes += names
                    elif bval.get("k") == "lit" and bval.get("t") == "bool" and arm["pat"]["k"] == "wild" and not bval["v"]:
                        pass
                    else:
                        ok_ = False
                if ok_ and yes:
                    return ("tok", yes)
            if body["k"] == "macro" and body["name"] == "matches" and "pat" in body:
                e0 = strip_refs(body["e"])
                if e0["k"] == "path" and e0["segs"] == [var] and body["guard"] is None:
                    names = self._tok_pat(body["pat"])
                    if names is not None:
                        return ("tok", names)
            cs = self._bool_cs(body, var)
            if cs is not None:
                return ("cs", cs)
            # any other predicate (a helper of the crate, a table lookup, a trait method on char): decided by evaluating the
            # closure on every ASCII character and on samples of the rest (nothing is compiled or run: vlib/probe.py)
            cs = self._pred_by_evaluation(a, env)
            if cs is not None:
                return ("cs", cs)
        return None

    def _pred_by_evaluation(self, clo, env):
        from . import probe as P

        fn0 = env.get("__fn")
        try:
            pr = P.Probe(self.facts, F.norm_ty(fn0.impl["self_ty"]).split("<")[0] if fn0 is not None and getattr(fn0, "impl", None) else None, tuple(env.get("__module") or ()))
            fv = pr.ev(clo, {})
            yes, no = [], []
            for code in range(0, 128):
                ch = chr(code)
                r_ = pr.apply(fv, [ch])
                if r_ is True:
                    yes.append(ch)
                elif r_ is False:
                    no.append(ch)
                else:
                    return None
            rest = [pr.apply(fv, [ch]) for ch in ("\u00e9", "\u00a0", "\u2009", "\u3000", "\u65e5", "\U0001f600")]
        except (P.NoEval, P.Panic, KeyError, AttributeError, TypeError):
            return None
        if all(r_ is False for r_ in rest):
            return cs_in(yes)
        if all(r_ is True for r_ in rest):
            return cs_notin(no)
        return None

    def _tok_pat(self, p):
        if p["k"] == "or":
            out = []
            for c in p["cases"]:
                x = self._tok_pat(c)
                if x is None:
                    return None
                out += x
            return out
        if p["k"] in ("tstruct", "path") and len(p["segs"]) == 2 and p["segs"][0] == "Token":
            if p["k"] == "tstruct" and not all(e["k"] == "wild" for e in p["elems"]):
                return None
            return [p["segs"][1]]
        return None

    def _bool_cs(self, b, var):
        """Boolean expression over the char variable -> charset, or None."""
        k = b["k"]

        def isvar(x):
            x = strip_refs(x)
            if x["k"] == "unary" and x["op"] == "*":
                x = x["e"]
            return x["k"] == "path" and x["segs"] == [var]

        if k == "binary":
            op = b["op"]
            if op in ("&&", "&"):
                l, r = self._bool_cs(b["lhs"], var), self._bool_cs(b["rhs"], var)
                return cs_inter(l, r) if l and r else None
            if op in ("||", "|"):
                l, r = self._bool_cs(b["lhs"], var), self._bool_cs(b["rhs"], var)
                return cs_union(l, r) if l and r else None
            if op in ("==", "!="):
                lit = None
                if isvar(b["lhs"]) and b["rhs"]["k"] == "lit" and b["rhs"]["t"] == "char":
                    lit = b["rhs"]["v"]
                elif isvar(b["rhs"]) and b["lhs"]["k"] == "lit" and b["lhs"]["t"] == "char":
                    lit = b["lhs"]["v"]
                if lit is None:
                    return None
                return cs_in([lit]) if op == "==" else cs_notin([lit])
            return None
        if k == "unary" and b["op"] == "!":
            x = self._bool_cs(b["e"], var)
            return cs_compl(x) if x else None
        if k == "mcall":
            recv_ = self.resolve_const(b["recv"], getattr(self, "_pred_env", {}), kinds=("lit", "array", "tuple", "range")) if b["m"] == "contains" else b["recv"]
            if b["m"] == "contains" and len(b["args"]) == 1 and isvar(b["args"][0]) and recv_["k"] == "lit" and recv_["t"] == "str":
                return cs_in(recv_["v"])
            if isvar(b["recv"]) and not b["args"]:
                cs_ = CHAR_CLASS.get(b["m"])
                if cs_ is not None:
                    return cs_in(cs_)
            # c.is_digit(R): the digits of radix R (2..=36), letters in both cases
            if isvar(b["recv"]) and b["m"] == "is_digit" and len(b["args"]) == 1:
                r_ = rx.int_const(b["args"][0])
                if r_ is not None and 2 <= r_ <= 36:
                    return cs_in(radix_digits(r_))
            # c.to_digit(R).is_some() / .is_none()
            if b["m"] in ("is_some", "is_none") and not b["args"]:
                i_ = strip_refs(b["recv"])
                if i_.get("k") == "mcall" and i_["m"] == "to_digit" and isvar(i_["recv"]) and len(i_["args"]) == 1:
                    r_ = rx.int_const(i_["args"][0])
                    if r_ is not None and 2 <= r_ <= 36:
                        return cs_in(radix_digits(r_)) if b["m"] == "is_some" else cs_notin(radix_digits(r_))
            # ['a', 'b'].contains(&c) / ('0'..='7').contains(&c) / CONST.contains(&c): the set the collection denotes
            if b["m"] == "contains" and len(b["args"]) == 1 and isvar(b["args"][0]):
                coll = strip_refs(recv_)
                while coll.get("k") == "paren":
                    coll = strip_refs(coll["e"])
                if coll.get("k") in ("array", "tuple", "range"):
                    got = self.pred(coll, getattr(self, "_pred_env", {}))
                    self._pred_env = getattr(self, "_pred_env", {})
                    if got is not None and got[0] == "cs":
                        return got[1]
            return None
        if k == "call" and b["f"]["k"] == "path" and len(b["args"]) == 1 and isvar(b["args"][0]):
            # UFCS: AsChar::is_space(c), char::is_ascii_digit(&c)
            segs = b["f"]["segs"]
            if len(segs) >= 2 and segs[-2] in ("AsChar", "char") and segs[-1] in CHAR_CLASS:
                return cs_in(CHAR_CLASS[segs[-1]])
            return None
        if k == "macro" and b["name"] == "matches" and "pat" in b and isvar(b["e"]) and b["guard"] is None:
            chars = self._char_pat(b["pat"])
            return cs_in(chars) if chars is not None else None
        if k == "lit" and b["t"] == "bool":
            return cs_notin([]) if b["v"] else cs_in([])
        return None

    def _char_pat(self, p):
        if p["k"] == "or":
            out = []
            for c in p["cases"]:
                x = self._char_pat(c)
                if x is None:
                    return None
                out += x
            return out
        if p["k"] == "lit" and p["t"] == "char":
            return [p["v"]]
        if p["k"] == "range":
            # 'a'..='f'  /  'a'..'g'
            m_ = re.fullmatch(r"'(\\?.)'\s*\.\.(=?)\s*'(\\?.)'", (p.get("src") or "").strip())
            if m_ and len(m_.group(1)) == 1 and len(m_.group(3)) == 1:
                lo, hi = ord(m_.group(1)), ord(m_.group(3)) + (1 if m_.group(2) else 0)
                if 0 <= hi - lo <= 256:
                    return [chr(c_) for c_ in range(lo, hi)]
            return None
        if p["k"] in ("ref", "typed"):
            return self._char_pat(p["pat"])
        return None


# ------------------------------------------------------------------ generic analyses over the IR
# character-class predicates of std `char` and winnow's `AsChar`, as the finite sets they denote on ASCII (the grammar's
# alphabet; non-ASCII characters satisfy none of the ascii_* / AsChar predicates)
CHAR_CLASS = {
    "is_alpha": ALPHA,
    "is_ascii_alphabetic": ALPHA,
    "is_ascii_digit": DIGIT,
    "is_dec_digit": DIGIT,
    "is_ascii_whitespace": " \t\n\r\x0c",
    "is_space": " \t",  # winnow AsChar::is_space: space or tab only
    "is_newline": "\n",  # winnow AsChar::is_newline
    "is_alphanum": ALPHA | DIGIT,
    "is_ascii_alphanumeric": ALPHA | DIGIT,
    "is_hex_digit": DIGIT | frozenset("abcdefABCDEF"),
    "is_ascii_hexdigit": DIGIT | frozenset("abcdefABCDEF"),
    "is_oct_digit": "01234567",
    "is_ascii_uppercase": "".join(c for c in ALPHA if c.isupper()),
    "is_ascii_lowercase": "".join(c for c in ALPHA if c.islower()),
    "is_ascii_punctuation": "!\"#$%&'()*+,-./:;<=>?@[\\]^_`{|}~",
}


def radix_digits(r):
    """The characters char::is_digit(r) / to_digit(r) accept."""
    ds = "0123456789"[: min(r, 10)]
    if r > 10:
        ds += "".join(chr(ord("a") + i) + chr(ord("A") + i) for i in range(r - 10))
    return ds


class Grammar:
    """Resolves refs lazily and offers nullability / FIRST / language helpers."""

    def __init__(self, builder):
        self.b = builder
        self._null = {}

    def deref(self, ir):
        """Follow ref nodes to the function body IR."""
        if ir["t"] == "ref":
            return self.b.fn_ir(ir["fn"], ir.get("targs") or {})
        return ir

    def open(self, ir, depth=0):
        """Look through ctx/cut wrappers and through references to helper parsers whose body is a single parser expression
        (`fn operator_end(i) { alt((multispace1, eof)).parse_next(i) }` is the same parser as the expression)."""
        while depth < 8:
            if ir["t"] in ("ctx", "cut"):
                ir = ir["p"]
            elif ir["t"] == "ref":
                fb = self.deref(ir)
                if fb["t"] == "fnbody" and not fb["steps"] and not fb["unknown"] and fb["tail"] is not None:
                    ir = fb["tail"]
                    depth += 1
                else:
                    return ir
            else:
                return ir
        return ir

    def body_seq(self, fb):
        """fnbody -> ordered list of parser IRs applied to the input."""
        out = [s["p"] for s in fb["steps"]]
        if fb["tail"] is not None:
            out.append(fb["tail"])
        return out

    def bindings(self, fb):
        """Variables bound by the parser steps of a function body: name -> IR node that produced the value.
        Handles `let x = p.parse_next(i)?`, `let (a, b, c) = (p1, p2, p3).parse_next(i)?` (element-wise) and
        `let (items, _) = repeat_till(..).parse_next(i)?` (the collected list is bound to the repetition itself)."""
        out = {}
        steps = list(fb.get("steps", []))
        # `P.map(|(a, b, c)| ..).parse_next(input)` binds the same values as `let (a, b, c) = P.parse_next(input)?; ..`
        t_ = fb.get("tail")
        while t_ is not None and t_["t"] in ("ctx", "cut"):
            t_ = t_["p"]
        if t_ is not None and t_["t"] in ("map", "trymap") and not t_.get("result_map") and isinstance(t_.get("f"), dict) and t_["f"].get("k") == "closure" and len(t_["f"]["params"]) == 1:
            steps.append({"pat": t_["f"]["params"][0], "p": t_["p"]})
        for st in steps:
            pat, p = st["pat"], st["p"]
            q = p
            while q["t"] in ("ctx", "cut"):
                q = q["p"]
            while pat["k"] in ("typed", "ref"):
                pat = pat["pat"]
            while True:
                # preceded(a, b) / terminated(a, b) yield the value of the one kept parser
                kept1 = [i["p"] for i in q["items"] if i["keep"]] if q["t"] == "seq" and not q.get("tuple") else None
                if kept1 is not None and len(kept1) == 1:
                    q = kept1[0]
                    while q["t"] in ("ctx", "cut"):
                        q = q["p"]
                else:
                    break
            if pat["k"] == "ident":
                out[pat["name"]] = q
            elif pat["k"] == "tuple":
                names = []
                for e in pat["elems"]:
                    while e["k"] in ("typed", "ref"):
                        e = e["pat"]
                    names.append(e.get("name") if e["k"] == "ident" else None)
                if q["t"] == "seq":
                    kept = [i["p"] for i in q["items"] if i["keep"]]
                    if len(kept) == len(names):
                        for nme, node in zip(names, kept):
                            if nme:
                                n2 = node
                                while n2["t"] in ("ctx", "cut"):
                                    n2 = n2["p"]
                                out[nme] = n2
                elif q["t"] == "reptill" and len(names) == 2 and names[0]:
                    out[names[0]] = q
                elif q["t"] == "map" and q.get("result_map"):
                    pass
        return out

    def strip(self, ir):
        """Drop wrappers that do not change the accepted language: ctx, cut, map, value, fold(init) and
        single-element seqs; follow refs."""
        while True:
            t = ir["t"]
            if t in ("ctx", "cut", "map", "value", "trymap_never"):
                ir = ir["p"]
            elif t == "ref":
                ir = self.deref(ir)
            elif t == "fnbody" and not ir["steps"] and ir["tail"] is not None:
                ir = ir["tail"]
            elif t == "seq" and len(ir["items"]) == 1:
                ir = ir["items"][0]["p"]
            else:
                return ir

    def nullable(self, ir, depth=0):
        """May the parser succeed consuming nothing? (over-approximation: True when unknown)"""
        if depth > 60:
            return True
        t = ir["t"]
        if t == "lit":
            return len(ir["s"]) == 0
        if t == "set":
            return ir["min"] == 0
        if t == "tokset":
            return False
        if t == "any":
            return False
        if t in ("eof",):
            return True
        if t == "fail":
            return False
        if t == "until":
            return ir["min"] == 0
        if t == "seq":
            return all(self.nullable(i["p"], depth + 1) for i in ir["items"])
        if t == "alt":
            return any(self.nullable(a, depth + 1) for a in ir["alts"])
        if t == "rep":
            return ir["min"] == 0 or self.nullable(ir["p"], depth + 1)
        if t == "reptill":
            return ir["min"] == 0 and self.nullable(ir["stop"], depth + 1) or (self.nullable(ir["p"], depth + 1) and self.nullable(ir["stop"], depth + 1))
        if t == "sep":
            return ir["min"] == 0 or self.nullable(ir["p"], depth + 1)
        if t in ("cut", "ctx", "map", "value", "trymap", "verify", "fold", "recognize"):
            return self.nullable(ir["p"], depth + 1)
        if t == "andthen":
            return self.nullable(ir["outer"], depth + 1)
        if t in ("peek", "notp"):
            return True
        if t == "ref":
            return self.nullable(self.deref(ir), depth + 1)
        if t == "fnbody":
            return all(self.nullable(p, depth + 1) for p in self.body_seq(ir))
        return True

    def first(self, ir, depth=0):
        """Set of characters that can start a non-empty match (over-approximation), as a charset."""
        if depth > 60:
            return cs_notin([])
        t = ir["t"]
        if t == "lit":
            return cs_in(ir["s"][:1])
        if t == "set":
            return ir["cs"] if (ir["max"] is None or ir["max"] > 0) else cs_in([])
        if t == "any":
            return cs_notin([])
        if t in ("eof", "fail", "peek", "notp"):
            return cs_in([])
        if t == "until":
            return cs_notin([]) if (ir["max"] is None or ir["max"] > 0) else cs_in([])
        if t == "seq":
            out = cs_in([])
            for i in ir["items"]:
                out = cs_union(out, self.first(i["p"], depth + 1))
                if not self.nullable(i["p"]):
                    break
            return out
        if t == "alt":
            out = cs_in([])
            for a in ir["alts"]:
                out = cs_union(out, self.first(a, depth + 1))
            return out
        if t in ("rep", "sep"):
            return self.first(ir["p"], depth + 1)
        if t == "reptill":
            return cs_union(self.first(ir["p"], depth + 1), self.first(ir["stop"], depth + 1))
        if t in ("cut", "ctx", "map", "value", "trymap", "verify", "fold", "recognize"):
            return self.first(ir["p"], depth + 1)
        if t == "andthen":
            return self.first(ir["outer"], depth + 1)
        if t == "ref":
            return self.first(self.deref(ir), depth + 1)
        if t == "fnbody":
            out = cs_in([])
            for p in self.body_seq(ir):
                out = cs_union(out, self.first(p, depth + 1))
                if not self.nullable(p):
                    break
            return out
        return cs_notin([])

    def walk(self, ir, fn, seen=None, follow=True, depth=0):
        """Pre-order walk over IR nodes (following refs once each when follow=True)."""
        seen = seen if seen is not None else set()
        fn(ir)
        t = ir["t"]
        kids = []
        if t == "seq":
            kids = [i["p"] for i in ir["items"]]
        elif t == "alt":
            kids = ir["alts"]
        elif t in ("rep", "cut", "ctx", "map", "value", "trymap", "verify", "fold", "recognize", "peek", "notp"):
            kids = [ir["p"]]
        elif t == "reptill":
            kids = [ir["p"], ir["stop"]]
        elif t == "sep":
            kids = [ir["p"], ir["sep"]]
        elif t == "andthen":
            kids = [ir["outer"], ir["inner"]]
        elif t == "fnbody":
            kids = self.body_seq(ir)
        elif t == "ref" and follow:
            key = (ir["fn"], tuple(sorted((ir.get("targs") or {}).items())))
            if key not in seen:
                seen.add(key)
                kids = [self.deref(ir)]
        for k in kids:
            self.walk(k, fn, seen, follow, depth + 1)

    def opaque_nodes(self, ir, follow=True):
        out = []
        self.walk(ir, lambda n: out.append(n) if n["t"] == "opaque" else None, follow=follow)
        return out


def show(ir, g=None, depth=0, maxdepth=6):
    """Compact rendering of an IR term for reports."""
    if depth > maxdepth:
        return "…"
    t = ir["t"]
    r = lambda x: show(x, g, depth + 1, maxdepth)
    if t == "lit":
        return repr(ir["s"])
    if t == "set":
        rng = "{%s,%s}" % (ir["min"], "" if ir["max"] is None else ir["max"])
        return (ir.get("name") or cs_show(ir["cs"])) + rng
    if t == "tokset":
        return "tok(%s)" % "|".join(ir["toks"])
    if t in ("any", "eof", "fail"):
        return t
    if t == "until":
        return "until(%s,%r)" % (ir["min"], ir["s"])
    if t == "seq":
        return "seq[%s]" % ", ".join(("" if i["keep"] else "~") + r(i["p"]) for i in ir["items"])
    if t == "alt":
        return "alt[%s]" % " / ".join(r(a) for a in ir["alts"])
    if t == "rep":
        return "rep{%s,%s}(%s)" % (ir["min"], "" if ir["max"] is None else ir["max"], r(ir["p"]))
    if t == "reptill":
        return "reptill{%s,}(%s ; %s)" % (ir["min"], r(ir["p"]), r(ir["stop"]))
    if t == "sep":
        return "sep{%s,}(%s ; %s)" % (ir["min"], r(ir["p"]), r(ir["sep"]))
    if t == "cut":
        return "cut(%s)" % r(ir["p"])
    if t == "ctx":
        return "%s@%s:%s" % (r(ir["p"]), ir["kind"], ir["s"])
    if t == "andthen":
        return "%s >>= %s" % (r(ir["outer"]), r(ir["inner"]))
    if t in ("map", "trymap", "verify"):
        return "%s(%s)" % (t, r(ir["p"]))
    if t == "value":
        return "%s=>%s" % (r(ir["p"]), src(ir["v"]) if ir["v"] else "()")
    if t == "fold":
        return "fold(%s)" % r(ir["p"])
    if t == "ref":
        ta = ir.get("targs") or {}
        return "&%s%s" % (ir["fn"], ("<%s>" % ",".join("%s=%s" % kv for kv in sorted(ta.items()))) if ta else "")
    if t == "fnbody":
        parts = [r(s["p"]) for s in ir["steps"]]
        if ir["tail"] is not None:
            parts.append(r(ir["tail"]))
        return "fn{%s}" % "; ".join(parts)
    if t == "opaque":
        return "OPAQUE(%s)" % ir.get("src", "?")[:60]
    return t
