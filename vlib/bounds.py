"""Sizes of the bounded evaluations (texts of unknown or concrete characters, clause lists): the quick tier uses N = 3, the thorough
tier N = 4.  Every rule that evaluates "on texts of up to N characters" reads the number here and states it in its detail."""
N = 3


def set_tier(tier):
    global N
    N = 4 if tier == "thorough" else 3
