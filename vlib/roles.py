"""Private functions are found by what they are, not by what they are called.

Every private helper a rule needs is described here by its *signature* (receiver, parameter types, return type, impl type);
`key(facts, role)` returns the key of the one function of the crate that fits, whatever its name.  The role names are the
names the functions have in the pinned tree; they double as the canonical names used in reports, in canonical hole names
(vlib/emit.canon) and in the frozen tables of spec/codegen.json, so a renamed helper produces the same tables.

Public API functions (parse, compile, Expression::action, Size::mult, ...) are not listed: their names are the interface."""
import re

from . import facts as F
from .facts import norm_ty


def _ty(t):
    return norm_ty(t).replace("'_", "").replace("'static", "").replace("'a", "")


# role -> dict(impl=<self type or None for a free function>, self=<bool>, params=[types without self], out=<type>, extra=<predicate(fn, facts)>)
ROLES = {
    "Permission::value": dict(impl="Permission", self_=False, params=["char"], out="Mode"),
    "Permission::from_symbolic_str": dict(impl="Permission", self_=False, nparams=1, out="Option<Mode>"),
    "PartialPermission::update": dict(impl="PartialPermission", self_=True, params=["Mode"], out="Mode"),
    "scheme::target_scheme::compile_perm_check": dict(impl=None, has_param="&PermCheck"),
    "scheme::target_scheme::compile_size_comp": dict(impl=None, has_param="&Comparison<Size>"),
    "scheme::target_scheme::compile_time_comp": dict(impl=None, has_param="&Comparison<TimeSpec>"),
    "scheme::target_scheme::compile_type_list_comp": dict(impl=None, has_param="&Vec<FileType>"),
    "scheme::target_scheme::size_matching": dict(impl=None, params=["&Size"], out="String"),
    "scheme::target_scheme::placeholder": dict(impl=None, params=["&FormatField"], out="CResult<&str>"),
    "scheme::target_scheme::snippet": dict(impl=None, params=["&FormatField"], out="CResult<Option<String>>"),
    "scheme::target_scheme::literal": dict(impl=None, params=["&FormatSpecial"], out="CResult<String>"),
    "scheme::manager::terminator_escape": dict(impl=None, params=["Option<char>"], out="String"),
    "scheme::manager::is_pattern": dict(impl=None, params=["&str"], out="bool", module=("scheme", "manager")),
    "SyntaxContext::new": dict(impl="SyntaxContext", self_=False, nparams=1, out_in=("Self", "SyntaxContext")),
}


def _fits(fn, spec):
    if fn.test:
        return False
    impl = spec.get("impl")
    if impl is None:
        if fn.impl is not None:
            return False
    else:
        if fn.impl is None or fn.impl.get("trait") or norm_ty(fn.impl["self_ty"]).split("<")[0] != impl:
            return False
    has_self = fn.node.get("self") is not None
    if "self_" in spec and spec["self_"] != has_self:
        return False
    ps = [(_n, _ty(t)) for _n, t in fn.params if _n != "self"]
    if "params" in spec and [t for _, t in ps] != [_ty(x) for x in spec["params"]]:
        return False
    if "nparams" in spec and len(ps) != spec["nparams"]:
        return False
    if "has_param" in spec and _ty(spec["has_param"]) not in [t for _, t in ps]:
        return False
    out = _ty(fn.node.get("output") or "")
    if "out" in spec and out != _ty(spec["out"]):
        return False
    if "out_in" in spec and out not in spec["out_in"]:
        return False
    if "module" in spec and tuple(fn.module) != tuple(spec["module"]):
        return False
    return True


def resolve(facts):
    """-> (role -> actual key, actual key -> role). A role with no or several candidates is left out (rules that need it
    raise AnchorMissing when they ask for it)."""
    if getattr(facts, "_roles", None) is not None:
        return facts._roles
    r2a, a2r, why = {}, {}, {}
    for role, spec in ROLES.items():
        cands = [k for k, fn in facts.fns.items() if _fits(fn, spec)]
        if role in cands:
            cands = [role]
        if len(cands) == 1:
            r2a[role] = cands[0]
            a2r[cands[0]] = role
        else:
            why[role] = "no function fits the signature" if not cands else "several functions fit: %s" % sorted(cands)
    # character maps (escaping helpers) are roles too: the map decides which one
    try:
        from . import sanitise
        import json, os

        ctx = json.load(open(os.path.join(F.VERIF, "spec", "sanitisers.json")))["contexts"]
        names = {"string": "scheme::escape_string", "template": "scheme::target_scheme::escape_template"}
        for key, info in sanitise.discover(facts).items():
            for cname, cmap in ctx.items():
                if cmap == info["map"] and names[cname] not in r2a:
                    r2a[names[cname]] = key
                    a2r[key] = names[cname]
    except (OSError, KeyError):
        pass
    facts._roles = (r2a, a2r, why)
    return facts._roles


def key(facts, role):
    r2a, _, why = resolve(facts)
    if role not in r2a:
        raise F.AnchorMissing("function in the role of %s (%s)" % (role, why.get(role, "not found")))
    return r2a[role]


def fn(facts, role):
    return facts.fn(key(facts, role))


def canonical(facts, actual):
    """Role name of a function key (itself when it has no role)."""
    return resolve(facts)[1].get(actual, actual)
