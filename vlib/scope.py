"""Which functions a behavioural property speaks of.

C03, C07 and C17 are statements about what *parse, compile, rendering and the tree helpers* do.  A function that none of those
steps can reach (a new public convenience method, an example helper, dead code) cannot make them panic, wrap or differ between
profiles, so its panic-capable sites are outside those properties.  The scope is computed on the resolved program (E2): the
transitive closure, over resolved calls, virtual calls (every local impl), closures and functions mentioned as values, from

  * the crate's interface functions — their names are the interface (vlib/roles.py): parse, compile, CompiledExpression::scheme,
    CompiledExpression::io_map, RunOptions::update, Expression::action / complex_frames, Size::mult / byte_size, TimeSpec::secs,
    FileType::octal, and the public lexer/parser stages,
  * every Display / Debug / Error rendering of a crate type ("rendering an error as text also always succeeds"),
  * every conversion / default impl of a crate type (From, Into, TryFrom, Default, FromStr) — reached implicitly by `?` and `.into()`.

Fail closed: if an interface function cannot be found, everything is in scope."""
import re

from . import mir

API_FNS = [
    "find_parser::parse",
    "scheme::compile",
    "scheme::CompiledExpression::scheme",
    "scheme::CompiledExpression::io_map",
    "RunOptions::update",
    "ast::Expression::action",
    "ast::Expression::complex_frames",
    "ast::Size::mult",
    "ast::Size::byte_size",
    "ast::TimeSpec::secs",
    "ast::FileType::octal",
]
REQUIRED = API_FNS[:4]
IMPLICIT = re.compile(r" as std::(fmt::(Display|Debug|Binary|Octal|LowerHex|UpperHex)|error::Error|convert::(From|Into|TryFrom|TryInto|AsRef)<?.*|default::Default|str::FromStr|cmp::\w+|hash::Hash|clone::Clone|ops::\w+)>?::\w+$|impl std::(fmt|ops|iter)::")


def in_scope(m):
    """Set of MIR body paths the behavioural properties speak of (cached on the fact object)."""
    if getattr(m, "_scope", None) is not None:
        return m._scope
    bodies = m.bodies
    have = {p for p in bodies}
    roots = [p for p in API_FNS if p in have]
    # the interface functions by their last two path segments too (a moved module keeps the name)
    for want in API_FNS:
        if want not in have:
            tail = "::".join(want.split("::")[-2:]) if want.count("::") >= 1 and want.split("::")[-2][0].isupper() else want.split("::")[-1]
            hits = [p for p in have if (p == tail or p.endswith("::" + tail)) and "{closure" not in p and bodies[p].get("vis") == "Public"]
            if len(hits) == 1:
                roots.append(hits[0])
            elif want in REQUIRED:
                m._scope = set(have)  # fail closed
                m._scope_why = "interface function %s not found: every body is in scope" % want
                return m._scope
    roots += [p for p in have if IMPLICIT.search(p)]
    # impls of traits of other crates are called back from their generic code (winnow's ContainsToken, Stream, ...): the calls
    # are not in this crate's MIR, so the impls are roots
    local_mods = {p.split("::")[0] for p in have if not p.startswith("<")}
    for p in have:
        mt = re.match(r"^<.+ as ([A-Za-z_][A-Za-z0-9_]*)::", p) or re.match(r"^(?:.*::)?<impl ([A-Za-z_][A-Za-z0-9_]*)::.+? for .+>::\w+", p)
        if mt and mt.group(1) not in local_mods:
            roots.append(p)
    m._scope = m.reachable(roots)
    m._scope_why = "%d of %d bodies reachable from %d roots" % (len(m._scope), len(have), len(roots))
    return m._scope


def fn_in_scope(m, facts, key):
    """An E1 function is in scope when one of its MIR bodies (itself or its closures) is."""
    sc = in_scope(m)
    if not hasattr(m, "_scope_keys"):
        m._scope_keys = {mir.e1_key(p, facts) for p in sc}
        m._all_keys = {mir.e1_key(p, facts) for p in m.bodies}
    # a function the resolved program does not contain at all (generic never instantiated, cfg'd out) is treated as in scope
    return key in m._scope_keys or key not in m._all_keys
