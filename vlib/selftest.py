"""./check selftest [name-substring ...] — mutants must fire the expected rule, benign edits must stay silent.
Scratch copies live under a temp dir and are removed immediately. Not part of any property's exit code."""
import json
import os
import shutil
import subprocess
import sys
import tempfile
from concurrent.futures import ThreadPoolExecutor

from . import facts as F

CASES = os.path.join(F.VERIF, "selftest", "cases.json")


def run_case(case, kind):
    d = tempfile.mkdtemp(prefix="vself-")
    try:
        dst = os.path.join(d, "repo")
        shutil.copytree(F.REPO, dst, ignore=shutil.ignore_patterns("target", ".git", "website"))
        for f, old, new in case["edits"]:
            p = os.path.join(dst, f)
            s = open(p).read()
            if old not in s:
                return dict(name=case["name"], kind=kind, status="SKIPPED", detail="pattern no longer occurs in %s" % f)
            open(p, "w").write(s.replace(old, new, 1))
        env = dict(os.environ, VERIF_REPO=dst, VERIF_EVID=os.path.join(d, "evid"))
        p = subprocess.run([os.path.join(F.VERIF, "check")] + case["check"], env=env, capture_output=True, text=True)
        fired = sorted({ln[len("  violated: ") :].split(" : ")[0] for ln in p.stdout.split("\n") if ln.startswith("  violated: ")})
        if kind == "mutant":
            hit = [e for e in case["expect"] if e in fired]
            ok = bool(hit)
            return dict(name=case["name"], kind=kind, status="ok" if ok else "MISSED", fired=fired, expected=case["expect"])
        ok = not fired
        return dict(name=case["name"], kind=kind, status="ok" if ok else "FALSE-ALARM", fired=fired)
    finally:
        shutil.rmtree(d, ignore_errors=True)


def run_patch(name, path):
    """A behaviour-preserving refactoring delivered as patch.diff: every check must stay silent."""
    d = tempfile.mkdtemp(prefix="vself-")
    try:
        dst = os.path.join(d, "repo")
        shutil.copytree(F.REPO, dst, ignore=shutil.ignore_patterns("target", ".git", "website"))
        subprocess.run(["git", "init", "-q"], cwd=dst)
        p = subprocess.run(["git", "apply", "--whitespace=nowarn", path], cwd=dst, capture_output=True, text=True)
        if p.returncode != 0:
            return dict(name=name, kind="benign", status="SKIPPED", detail="patch no longer applies")
        env = dict(os.environ, VERIF_REPO=dst, VERIF_EVID=os.path.join(d, "evid"))
        p = subprocess.run([os.path.join(F.VERIF, "check"), "all"], env=env, capture_output=True, text=True)
        fired = sorted({ln[len("  violated: ") :].split(" : ")[0] + "@" + ln[len("  violated: ") :].split(" : ")[1] for ln in p.stdout.split("\n") if ln.startswith("  violated: ")})
        lim = os.path.join(os.path.dirname(path), "limit.json")
        if os.path.exists(lim):
            # a behaviour-preserving change that is KNOWN to be reported, by fail-closed obligations only (DESIGN §13.13): the
            # rules it may fire are listed; anything else is a false alarm, and silence is an improvement to record
            allowed = set(json.load(open(lim))["may_fire"])
            extra = [f_ for f_ in fired if f_.split("@")[0] not in allowed]
            return dict(name=name, kind="benign", status="FALSE-ALARM" if extra else ("known-limit" if fired else "ok(limit gone)"), fired=extra or fired)
        return dict(name=name, kind="benign", status="ok" if not fired else "FALSE-ALARM", fired=fired)
    finally:
        shutil.rmtree(d, ignore_errors=True)


def main(argv):
    cases = json.load(open(CASES))
    if argv and argv[0] == "patches":
        import glob

        sel = argv[1:]
        jobs = [(os.path.basename(os.path.dirname(p)), p) for p in sorted(glob.glob(os.path.join(F.VERIF, "selftest", "benign", "*", "patch.diff")))]
        jobs = [j for j in jobs if not sel or any(s in j[0] for s in sel)]
        with ThreadPoolExecutor(max_workers=6) as ex:
            results = list(ex.map(lambda j: run_patch(*j), jobs))
        bad = 0
        for r in results:
            print("%-12s %-8s %s" % (r["status"], r["name"], "; ".join(r.get("fired", [])) if r["status"] != "SKIPPED" else r["detail"]))
            bad += r["status"] == "FALSE-ALARM"
        print("selftest patches: %d refactorings, %d false alarms, %d reported within a documented limit" % (len(results), bad, sum(1 for r in results if r["status"] == "known-limit")))
        return 1 if bad else 0
    sel = [a for a in argv if not a.startswith("-")]
    jobs = []
    for c in cases["mutants"]:
        if not sel or any(s in c["name"] for s in sel):
            jobs.append((c, "mutant"))
    for c in cases["benign"]:
        if not sel or any(s in c["name"] for s in sel):
            jobs.append((c, "benign"))
    # warm the E2 cache directories once (the per-case runs share the dependency artefacts)
    with ThreadPoolExecutor(max_workers=6) as ex:
        results = list(ex.map(lambda j: run_case(*j), jobs))
    bad = 0
    for r in results:
        line = "%-12s %-7s %-36s" % (r["status"], r["kind"], r["name"])
        if r["status"] in ("MISSED", "FALSE-ALARM"):
            bad += 1
            line += " fired=%s expected=%s" % (r.get("fired"), r.get("expected"))
        elif r["status"] == "SKIPPED":
            line += " " + r["detail"]
        else:
            line += " %s" % (r.get("fired") or "")
        print(line)
    n_m = sum(1 for r in results if r["kind"] == "mutant")
    n_b = sum(1 for r in results if r["kind"] == "benign")
    print("selftest: %d mutants, %d benign edits, %d skipped, %d wrong" % (n_m, n_b, sum(1 for r in results if r["status"] == "SKIPPED"), bad))
    return 1 if bad else 0
