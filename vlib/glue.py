"""The glue between the public parse() and the grammar: obligations shared by every property that is stated about parse(text)
as a whole (C01, C04, C05, C06, C13, C14, C18).

 G1  parse() hands its argument, unchanged, to the inner parse function and returns that function's result unchanged
     (an error is only converted by the dispatch function).
 G2  inside the inner function the token list produced by the lexer reaches the precedence parser unchanged except for the
     replacement of misplaced global options by -true, and the tree returned is the precedence parser's result.

Both are decided on summaries (vlib/inner.py), not on the spelling of the functions."""
from . import rx
from .facts import src
from .anchors import Anchors


def obligations(c, facts, b, prefix):
    an = Anchors(facts, b)
    pubk = an.role("parse_pub")
    pubf = facts.fn(pubk)
    innerk = an.role("parse_inner")
    entry = an.role("prec_entry")
    lexk = an.role("lex")
    rule = prefix + ".api"
    # ---- G1
    t = rx.tail_expr(pubf.body)
    okapi, det = None, "shape of %s not recognised" % pubk
    if t is not None:
        base, chain = rx.method_chain(t)
        ms = [m_ for m_, _, _ in chain]
        callee_ok = base["k"] == "call" and base["f"]["k"] == "path" and base["f"]["segs"][-1] == innerk.split("::")[-1]
        okapi = callee_ok and ms in (["or_else"], ["map_err"])
        det = "%s returns %s(..).%s: the tree and the options produced by the inner parser reach the caller unchanged: %s" % (pubk, innerk.split("::")[-1], ".".join(ms), okapi)
        pname = pubf.params[0][0] if pubf.params else None
        # statements before the tail may only view the argument as &str: `let mut x: &str = input.as_ref();`
        pre = []
        for st in pubf.body["stmts"][:-1]:
            init = st.get("init") if st["k"] == "let" else None
            i0 = rx.peel(init) if init is not None else None
            plain = i0 is not None and i0.get("k") == "mcall" and i0["m"] in ("as_ref", "as_str", "borrow") and not i0["args"] and rx.is_var(i0["recv"], pname)
            if not plain:
                pre.append(src(st)[:70])
        if pre:
            okapi, det = False, det + "; statements that are not a plain `&str` view of the argument: %s" % pre
        if callee_ok and base["args"]:
            a0 = rx.peel(base["args"][0])
            views = {rx.pat_bindings(st["pat"])[0] for st in pubf.body["stmts"][:-1] if st["k"] == "let" and rx.pat_bindings(st["pat"])}
            if not (a0.get("k") == "path" and len(a0["segs"]) == 1 and a0["segs"][0] in views | {pname}):
                okapi, det = False, det + "; the inner parser is applied to `%s`, not to the argument" % src(a0)[:50]
    c.ob(rule, pubk, "parse() hands its input over and returns the inner result untouched", okapi, det, witness="any input the added step rewrites" if okapi is False else None)
    # ---- G2
    from .rules import c06

    S = c06.inner_summary(b, facts.fn(innerk))
    okr = bool(S.ret) and len(S.ret) == 2 and S.ret[1]["v"] == "applied" and S.ret[1]["fn"] == entry and not S.unknown
    c.ob(rule, innerk, "the tree returned is the precedence parser's result", okr, "returned tree comes from %s; statements not understood: %s" % (S.ret[1].get("fn") if S.ret and len(S.ret) == 2 else None, S.unknown or "none"))
    # chain from the precedence parser's argument back to the lexer: only the option rewrite in between
    ap = [e for e in S.events if e["e"] == "apply" and e["fn"] == entry]
    okc, detc = None, "the precedence parser is applied %d times" % len(ap)
    if len(ap) == 1:
        v = ap[0]["arg"]
        hops = []
        while v.get("v") == "list":
            t_ = S.events[v["from"]]
            hops.append(t_)
            v = t_["over"]
        if v.get("v") == "ifempty":
            v = v["els"]
        from_lex = v.get("v") == "parsed" and v["ir"]["t"] == "ref" and v["ir"]["fn"] == lexk and "component" not in v
        good_hops = len(hops) <= 1 and all(_only_option_rewrite(h) for h in hops)
        others = [t_ for t_ in S.traversals() if t_ not in hops and t_["mode"] in ("map", "mutate")]
        okc = from_lex and good_hops and not others and not S.unknown
        detc = "tokens handed to %s: lexer output: %s; rewrites on the way: %d (only `misplaced option → -true`: %s); other list rewrites: %d" % (entry.split("::")[-1], from_lex, len(hops), good_hops, len(others))
    c.ob(rule, innerk, "the lexer's tokens reach the precedence parser unchanged (options aside)", okc, detc, witness="! ! -true" if okc is False else None)


def _only_option_rewrite(t):
    if t["adaptors"] or t["mode"] not in ("map", "mutate"):
        return False
    for cs in t["cases"]:
        pats = rx.pat_cases(cs["pat"]) if cs["pat"] is not None else [None]
        for p in pats:
            pv = rx.pat_variant(p) if p is not None else None
            if pv and pv[0] == "Token::Global":
                if not (isinstance(cs["result"], dict) and src(cs["result"]) == "Token::Test(Test::True)") or cs.get("guard"):
                    return False
            elif p is None or rx.is_catchall(p):
                if cs["result"] != "same":
                    return False
            else:
                return False
    return True
