"""The glue between the public parse() and the grammar: obligations shared by every property that is stated about parse(text)
as a whole (C01, C04, C05, C06, C13, C14, C18).

 G1  parse() hands its argument, unchanged, to the inner parse function and returns that function's result unchanged
     (an error is only converted by the dispatch function).
 G2  inside the inner function the token list produced by the lexer reaches the precedence parser unchanged except for the
     replacement of misplaced global options by -true, and the tree returned is the precedence parser's result.

Both are decided on summaries (vlib/inner.py), not on the spelling of the functions."""
from . import rx
from .facts import src
from .anchors import Anchors


def obligations(c, facts, b, prefix):
    an = Anchors(facts, b)
    pubk = an.role("parse_pub")
    pubf = facts.fn(pubk)
    innerk = an.role("parse_inner")
    entry = an.role("prec_entry")
    lexk = an.role("lex")
    rule = prefix + ".api"
    # ---- G1: parse() evaluated (vlib/probe.py) with the inner parser and the error dispatcher replaced by unknowns: on
    # success the inner result must come back as it is; on failure the error must be what the dispatcher makes of the inner
    # error and of the very input the inner parser worked on; the inner parser must have been given the argument itself
    from . import probe as P

    okapi, det = None, "shape of %s not recognised" % pubk
    try:
        dispk = an.role("dispatch")
    except Exception:
        dispk = None
    outcomes = {}
    try:
        for case in ("ok", "err", "err-cut"):
            pr = P.Probe(facts, None, pubf.module)
            arg = P.Opq("argument")
            # the inner result as the record it is (a pair, or a struct of the crate): one unknown per component
            rec = an.result_record(innerk)
            RO, RT = P.Opq("inner result: options"), P.Opq("inner result: tree")
            if rec["kind"] == "tuple":
                R = [RO if a_ == rec["opts"] else RT for a_, _ in rec["fields"]]
            else:
                R = dict({"__ty": rec["name"]}, **{a_: (RO if a_ == rec["opts"] else RT) for a_, _ in rec["fields"]})
            # the inner error as winnow hands it over: the context error inside Backtrack or Cut (Incomplete needs a Partial
            # stream: C03.not-partial)
            CTX = P.Opq("inner error")
            E = ("enum", "ErrMode::Cut" if case == "err-cut" else "ErrMode::Backtrack", [CTX])
            seen = {}
            pr.intercept[innerk] = lambda a, case=case, seen=seen: (seen.__setitem__("inner", list(a)), ("ok", R) if case == "ok" else ("err", E))[1]
            if dispk:
                pr.intercept[dispk] = lambda a, seen=seen: (seen.__setitem__("dispatch", list(a)), P.Opq("dispatched", ("call", dispk, list(a))))[1]
            out = pr.invoke(pubf, None, [arg] + [P.Opq("extra") for _ in pubf.params[1:]])
            outcomes[case] = (out, seen, arg, (RO, RT), CTX)
        out, seen, arg, R, E = outcomes["ok"]
        ok1 = isinstance(out, tuple) and out[0] == "ok" and isinstance(out[1], list) and len(out[1]) == 2 and out[1][0] is R[0] and out[1][1] is R[1] and seen.get("inner") == [arg] and seen["inner"][0] is arg
        def rooted(v, root):
            while isinstance(v, P.Opq) and v is not root and v.expr and v.expr[0] == "mcall" and v.expr[1] in ("into_inner", "unwrap", "expect", "unwrap_or_default"):
                v = v.expr[2]
            return v is root

        ok2 = True
        for case_ in ("err", "err-cut"):
            out, seen, arg, R, E = outcomes[case_]
            d = out[1] if isinstance(out, tuple) and out[0] == "err" else None
            ok2 = ok2 and bool(isinstance(d, P.Opq) and d.expr and d.expr[0] == "call" and d.expr[1] == dispk and len(seen.get("dispatch", [])) == 2 and rooted(seen["dispatch"][0], E) and seen["dispatch"][1] is arg and seen.get("inner") and seen["inner"][0] is arg)
        okapi = bool(ok1 and ok2)
        det = "%s evaluated with %s and %s replaced by unknowns: on success the inner result is returned as it is: %s; on failure the error is %s(inner error, the input the inner parser worked on): %s" % (pubk, innerk.split("::")[-1], (dispk or "?").split("::")[-1], bool(ok1), (dispk or "?").split("::")[-1], bool(ok2))
    except (P.NoEval, P.Panic) as ex:
        okapi, det = None, "%s could not be evaluated: %s" % (pubk, ex)
    c.ob(rule, pubk, "parse() hands its input over and returns the inner result untouched", okapi, det, witness="any input the added step rewrites" if okapi is False else None)
    # ---- G2
    from .rules import c06

    from . import innerval

    S = c06.inner_summary(b, facts.fn(innerk))
    okr = bool(S.ret) and len(S.ret) == 2 and S.ret[1]["v"] == "applied" and S.ret[1]["fn"] == entry and not S.unknown
    detr = "returned tree comes from %s; statements not understood: %s" % (S.ret[1].get("fn") if S.ret and len(S.ret) == 2 else None, S.unknown or "none")
    # chain from the precedence parser's argument back to the lexer: only the option rewrite in between
    ap = [e for e in S.events if e["e"] == "apply" and e["fn"] == entry]
    okc, detc = None, "the precedence parser is applied %d times" % len(ap)
    if len(ap) == 1:
        v = ap[0]["arg"]
        hops = []
        while v.get("v") == "list":
            t_ = S.events[v["from"]]
            hops.append(t_)
            v = t_["over"]
        if v.get("v") == "ifempty":
            v = v["els"]
        from_lex = v.get("v") == "parsed" and v["ir"]["t"] == "ref" and v["ir"]["fn"] == lexk and "component" not in v
        good_hops = len(hops) <= 1 and all(_only_option_rewrite(h) for h in hops)
        others = [t_ for t_ in S.traversals() if t_ not in hops and t_["mode"] in ("map", "mutate")]
        okc = from_lex and good_hops and not others and not S.unknown
        detc = "tokens handed to %s: lexer output: %s; rewrites on the way: %d (only `misplaced option → -true`: %s); other list rewrites: %d" % (entry.split("::")[-1], from_lex, len(hops), good_hops, len(others))
    # the statement summary establishes the obligation for lists of any length; where it does not recognise the statements,
    # the function is evaluated on scenarios instead (vlib/innerval.py)
    if not (okr and okc):
        EV, why_not = innerval.cached(facts, b, an)
        if EV is not None:
            okr, detr = EV["ok_tree"], innerval.how(EV) + (" — " + EV["detail"] if not EV["ok_tree"] else "")
            okc = EV["ok_tokens"] and EV["ok_empty"]
            detc = innerval.how(EV) + (" — " + EV["detail"] if not okc else "")
    c.ob(rule, innerk, "the tree returned is the precedence parser's result", okr, detr)
    c.ob(rule, innerk, "the lexer's tokens reach the precedence parser unchanged (options aside)", okc, detc, witness="! ! -true" if okc is False else None)


def _only_option_rewrite(t):
    if t["adaptors"] or t["mode"] not in ("map", "mutate"):
        return False
    for cs in t["cases"]:
        pats = rx.pat_cases(cs["pat"]) if cs["pat"] is not None else [None]
        for p in pats:
            pv = rx.pat_variant(p) if p is not None else None
            if pv and pv[0] == "Token::Global":
                if not (isinstance(cs["result"], dict) and src(cs["result"]) == "Token::Test(Test::True)") or cs.get("guard"):
                    return False
            elif p is None or rx.is_catchall(p):
                if cs["result"] != "same":
                    return False
            else:
                return False
    return True
