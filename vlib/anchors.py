"""Role → function resolution. Private functions are found by their *role* (who calls what with which
type), so renaming them does not disturb the rules; only public API names are fixed."""
import re

from . import facts as F
from .facts import norm_ty, find_all
from . import peg


class Anchors:
    def __init__(self, facts, builder):
        self.f = facts
        self.b = builder
        self._roles = {}

    def _resolve_calls(self, fn):
        """fn keys of local functions referenced (called or used as parser values) in fn's body."""
        out = []
        env = {"__module": fn.module, "__tsubst": {}}
        for n in find_all(fn.body, lambda n: n.get("k") == "path"):
            r = self.b._resolve_fn_path(n, env)
            if r and r[0] in self.f.fns and r[0] not in out:
                out.append(r[0])
            elif not r and len(n["segs"]) >= 2 and "::".join(n["segs"][-2:]) in self.f.fns and "::".join(n["segs"][-2:]) not in out:
                # `module::Type::method` — an associated function named through its module path
                out.append("::".join(n["segs"][-2:]))
        return out

    def _reach_calls(self, fn, depth=3):
        """_resolve_calls, followed through the private free helper functions the body was split into"""
        out, seen, todo = [], {fn.key}, [(fn, 0)]
        while todo:
            f_, d_ = todo.pop(0)
            for k in self._resolve_calls(f_):
                if k in seen:
                    continue
                seen.add(k)
                out.append(k)
                g_ = self.f.fns[k]
                if d_ < depth and g_.impl is None and g_.node.get("vis") != "pub" and tuple(g_.module) == tuple(fn.module) and not g_.test:
                    todo.append((g_, d_ + 1))
        return out

    def role(self, name):
        if name in self._roles:
            return self._roles[name]
        v = getattr(self, "_r_" + name)()
        if v is None:
            raise F.AnchorMissing("role %s" % name)
        self._roles[name] = v
        return v

    def _r_parse_pub(self):
        api = F.api_fn(self.f, "parse")
        if api is not None:
            return api.key
        for k, fn in self.f.fns.items():
            if fn.name == "parse" and fn.impl is None and not fn.test and fn.node["vis"] == "pub" and "ParserError" in fn.node["output"]:
                return k
        return None

    def _r_parse_inner(self):
        fn = self.f.fn(self.role("parse_pub"))
        for k in self._resolve_calls(fn):
            g = self.f.fns[k]
            if g.impl is None and self.result_record(k) is not None:
                return k
        return None

    def result_record(self, key):
        """What the inner parse function yields on success, as a record: a tuple `(RunOptions, Exp)` or a crate struct with
        one field of each type.  -> {"kind", "name", "fields": [(accessor, type)], "opts": accessor, "tree": accessor} or None"""
        g = self.f.fns.get(key)
        if g is None:
            return None
        m = re.fullmatch(r"(?:PResult|Result)<(.*?)(?:,[A-Za-z_:]+)?>", norm_ty(g.node["output"] or ""))
        if not m:
            return None
        ty = m.group(1)
        for _ in range(4):
            al = self.f.types.get(ty)  # `type Parsed = (RunOptions, Exp);`
            if al is None or al.get("generics"):
                break
            ty = norm_ty(al.get("ty") or "")
        if ty.startswith("(") and ty.endswith(")"):
            parts = F.split_generics(ty[1:-1])
            fields = [(i, t.strip()) for i, t in enumerate(parts)]
            kind, name = "tuple", None
        elif ty in self.f.structs and not self.f.structs[ty].get("tuple"):
            fields = [(fl["name"], norm_ty(fl["ty"])) for fl in self.f.structs[ty]["fields"]]
            kind, name = "struct", ty
        else:
            return None
        opts = [a for a, t in fields if t.split("::")[-1] == "RunOptions"]
        tree = [a for a, t in fields if t.split("::")[-1] in ("Exp", "Rc<Expression>", "Expression") or t.endswith("Rc<Expression>") or t.endswith("Rc<ast::Expression>")]
        if len(fields) != 2 or len(opts) != 1 or len(tree) != 1:
            return None
        return {"kind": kind, "name": name, "fields": fields, "opts": opts[0], "tree": tree[0]}

    def _r_lex(self):
        fn = self.f.fn(self.role("parse_inner"))
        cands = []
        for k in self._reach_calls(fn):
            g = self.f.fns[k]
            if norm_ty(g.node["output"]) in ("PResult<Vec<Token>>",) and g.impl is None:
                cands.append(k)
        # a helper that only decides whether to call the lexer has the same signature: the lexer is the one the others call
        leaf = [k for k in cands if not any(c_ in self._resolve_calls(self.f.fns[k]) for c_ in cands if c_ != k)]
        return leaf[0] if leaf else (cands[0] if cands else None)

    def _r_prec_entry(self):
        fn = self.f.fn(self.role("parse_inner"))
        for k in self._reach_calls(fn):
            g = self.f.fns[k]
            if g.impl is None and any(ty.replace("'_", "").startswith("&mut&[Token]") for _, ty in g.params):
                return k
        return None

    def _r_token(self):
        g = peg.Grammar(self.b)
        ir = self.b.fn_ir(self.role("lex"))
        found = []

        def w(n):
            if n["t"] == "reptill":
                def w2(m):
                    if m["t"] == "ref" and self.f.fns[m["fn"]].node["output"].replace(" ", "") == "PResult<Token>":
                        found.append(m["fn"])
                g.walk(n["p"], w2, follow=False)

        g.walk(ir, w, follow=False)
        return found[0] if found else None

    def _r_dispatch(self):
        fn = self.f.fn(self.role("parse_pub"))
        for k in self._resolve_calls(fn):
            g = self.f.fns[k]
            if g.impl is not None and any("ContextError" in ty for _, ty in g.params):
                return k
        # fall back: any method taking ContextError
        for k, g in self.f.fns.items():
            if not g.test and any("ContextError" in ty for _, ty in g.params):
                return k
        return None
