"""Facts about the two scheme managers, derived from the codegen tables (affine counter, names, keys)."""
import re

from . import codegen, emit, sexp, facts as F

class _M:
    def __init__(self, kind, idx, full):
        self.kind, self.idx, self.full = kind, idx, full

    def group(self, i):
        return (self.full, self.kind, self.idx)[i]


class _Name:
    """%lf3:<kind>:<digits | balanced {hole}> — a matcher with the parts of the `re` API the rules use."""

    HEAD = re.compile(r"%lf3:([a-z]+):")

    def _at(self, text, pos):
        m = self.HEAD.match(text, pos)
        if not m:
            return None
        i = m.end()
        if i < len(text) and text[i] == "{":
            d, j = 0, i
            while j < len(text):
                if text[j] == "{":
                    d += 1
                elif text[j] == "}":
                    d -= 1
                    if d == 0:
                        break
                j += 1
            return _M(m.group(1), text[i : j + 1], text[pos : j + 1]), j + 1
        j = i
        while j < len(text) and text[j].isdigit():
            j += 1
        if j == i:
            return None
        return _M(m.group(1), text[i:j], text[pos:j]), j

    def fullmatch(self, text):
        r = self._at(text, 0)
        return r[0] if r and r[1] == len(text) else None

    def finditer(self, text):
        pos = 0
        while True:
            k = text.find("%lf3:", pos)
            if k < 0:
                return
            r = self._at(text, k)
            if r:
                yield r[0]
                pos = r[1]
            else:
                pos = k + 5


NAME = _Name()


def idx_of(txt):
    """'{v+2}' -> ('v', 2) ; '3' -> (None, 3); other -> ('?', txt)"""
    if txt.isdigit():
        return (None, int(txt))
    t = txt.strip("{}")
    t = t.split(":")[0] if re.match(r"^v([+-]\d+)?(:.*)?$", t) else t
    m = re.match(r"^v([+-]\d+)?$", t)
    if m:
        return ("v", int(m.group(1) or 0))
    return ("?", txt)


class Path:
    """One path of one allocating method."""

    def __init__(self, mgr, method, row):
        self.mgr, self.method, self.row = mgr, method, row
        self.cond = row["cond"]
        self.pushes = []  # (field, text, tokens, form)
        self.inserts = []  # (field, [key, value])
        self.final = None
        for e in row["effects"]:
            if e.startswith("push "):
                _, fld, rest = e.split(" ", 2)
                text = rest[1:-1] if rest.startswith('"') else rest
                toks = emit.scheme_tokens(text)
                forms = sexp.parse(toks)
                self.pushes.append((fld, text, toks, forms))
            elif e.startswith("set var_index = "):
                self.final = idx_of(e[len("set var_index = ") :].strip())
            elif e.startswith("insert "):
                m = re.match(r"insert (\w+) \[(.*)\]$", e)
                if m:
                    parts = codegen.split_top(m.group(2))
                    self.inserts.append((m.group(1), [p.strip() for p in parts]))
        self.ret = row["outcome"]

    def norm(self, text):
        """Port records are named by the cache slot that holds them: a record stored on this path under files[K] (or as the
        default port), and the lookups `self.files.get(K).some` / `self.default_port.some`, all become `files[K]` /
        `default_port`.  A sharing key is then a function of the request parameters in every spelling."""
        t = text
        for e in self.row["effects"]:
            m = re.match(r"insert files \[(.*)\]$", e)
            if m:
                parts = codegen.split_top(m.group(1))
                if len(parts) == 2:
                    t = t.replace(parts[1].strip(), "files[%s]" % parts[0].strip())
            m = re.match(r"set default_port = Some\((.*)\)$", e)
            if m:
                t = t.replace(m.group(1).strip(), "default_port")
        t = re.sub(r"self\.files\.get\(((?:[^()]|\([^()]*\))*)\)\.(?:some|unwrap\(\))", lambda m_: "files[%s]" % m_.group(1), t)
        t = re.sub(r"self\.default_port\.(?:some|unwrap\(\))", "default_port", t)
        return t

    def bound_names(self):
        """(kind, idx) for the binder of every pushed definition and every lambda parameter."""
        out = []
        for fld, text, toks, forms in self.pushes:
            if fld != "vars":
                continue
            for form in forms:
                if isinstance(form, list) and form and isinstance(form[0], str):
                    m = NAME.fullmatch(form[0])
                    if m:
                        out.append((m.group(1), idx_of(m.group(2)), "binder"))

                    def w(f, path):
                        if f and f[0] == "lambda" and len(f) > 1 and isinstance(f[1], list):
                            for prm in f[1]:
                                if isinstance(prm, str):
                                    mm = NAME.fullmatch(prm)
                                    if mm:
                                        out.append((mm.group(1), idx_of(mm.group(2)), "param"))

                    sexp.walk(form, w)
        return out

    def references(self):
        """generated names referenced inside initialisers (not binders/params): (kind, idxtext, binder_kind_idx)"""
        out = []
        for fld, text, toks, forms in self.pushes:
            for form in forms:
                if not isinstance(form, list) or not form:
                    continue
                binder = form[0] if isinstance(form[0], str) else None
                params = set()

                def w(f, path):
                    if f and f[0] == "lambda" and len(f) > 1 and isinstance(f[1], list):
                        for prm in f[1]:
                            if isinstance(prm, str):
                                params.add(prm)

                sexp.walk(form, w)
                flat = []

                def atoms(f, first=True):
                    for i, x in enumerate(f):
                        if isinstance(x, list):
                            atoms(x, False)
                        elif not (first and i == 0):
                            flat.append(x)

                atoms(form)
                for a in flat:
                    for m in NAME.finditer(a):
                        if m.group(0) in params:
                            continue
                        out.append((m.group(1), m.group(2), binder, fld))
        return out


def paths(facts, mgr, method):
    k = codegen.mgr_key(facts, mgr, method)
    if k is None:
        raise F.AnchorMissing("%s::%s" % (mgr, method))
    rows = codegen.table(facts, k, codegen.AFF())
    return [Path(mgr, method, dict(cond=r["cond"], effects=r["effects"], outcome=r["outcome"], unknown=r["unknown"])) for r in rows]


def default_vars(facts, mgr):
    """Pre-allocated bindings and start index from Default::default."""
    k = "<%s as Default>::default" % mgr
    if k not in facts.fns:
        # #[derive(Default)]: every field starts from its type's default
        v = emit.Interp(facts).derived_default(mgr)
        if v is None:
            raise F.AnchorMissing("%s has neither a Default impl nor a derived one" % mgr)
        rows = [(None, v)]
    else:
        rows = codegen.run(facts, k)
    if len(rows) != 1:
        raise F.AnchorMissing("%s is not a single struct literal" % k)
    st, v = rows[0]
    if v.get("v") != "struct":
        raise F.AnchorMissing("%s does not return a struct literal" % k)
    # fields by role: nested state structs are flattened and renamed through the manager's layout
    from . import mgrstate

    lay = mgrstate.layout(facts, mgr)

    def flat(val, prefix=""):
        out = {}
        for fname, fv in val["fields"].items():
            path = prefix + fname
            if isinstance(fv, dict) and fv.get("v") == "struct" and any(q.startswith(path + ".") for q in lay["paths"]):
                out.update(flat(fv, path + "."))
            else:
                out[lay["alias"].get(path, path)] = fv
        return out

    fields = flat(v)
    start = fields.get("var_index", {}).get("n")
    vars_ = []
    lst = fields.get("vars")
    if lst and lst.get("v") == "list":
        for it in lst["items"]:
            text = emit.canon_parts(it["parts"]) if it.get("v") == "str" else emit.canon(it)
            vars_.append(text)
    return dict(start=start, vars=vars_, fields=fields)
