"""Summary of the inner parse function (`_parse` today): which parsers are applied to the input and in which order, how the
lists they return are traversed, what is done per element, and what is returned.

The function is interpreted statement by statement over abstract values; iterator chains (`.iter().for_each(..)`,
`.into_iter().enumerate().map(..).collect()`) and `for` loops (`for x in list`, `for (i, t) in list.iter_mut().enumerate()`)
are brought to one normal form, the *element-wise traversal*: an ordered visit of every element with, per pattern case, a
list of effects and the replacement value.  Rules are then stated on that summary, not on the spelling.

Anything the interpreter does not understand is recorded in `unknown` (with the source text); rules that depend on the
summary fail closed when `unknown` is not empty.
"""
from . import facts as F
from . import rx
from .facts import src, find_all

ORDER_PRESERVING = {"iter", "into_iter", "iter_mut", "enumerate", "by_ref", "copied", "cloned"}
TRANSPARENT = {"as_slice", "as_mut_slice", "as_ref", "as_mut", "clone", "to_vec", "to_owned", "borrow", "borrow_mut", "unwrap", "expect"}
LOG_MACROS = {"debug", "info", "warn", "error", "trace", "log"}


def V(v, **kw):
    d = {"v": v}
    d.update(kw)
    return d


def strip_pat(p):
    while p["k"] in ("typed", "ref"):
        p = p["pat"]
    return p


class Inner:
    def __init__(self, facts, b, g, fnkey):
        self.facts, self.b, self.g = facts, b, g
        self.fn = facts.fn(fnkey)
        self.key = fnkey
        self.inp = b._input_name(self.fn)
        self.benv = {"__fn": self.fn, "__input": self.inp, "__tsubst": {}, "__module": self.fn.module}
        self.env = {}
        self.depth = 0
        self.inlined = []
        self.events = []
        self.unknown = []
        self.ret = None
        self._block(self.fn.body, top=True)

    # ------------------------------------------------------------------ helpers
    def ev_add(self, **kw):
        kw["id"] = len(self.events)
        self.events.append(kw)
        return kw["id"]

    def unk(self, e, why=""):
        self.unknown.append("%s%s" % (src(e)[:90], (" (%s)" % why) if why else ""))
        return V("unknown", src=src(e)[:90])

    def parses(self):
        return [e for e in self.events if e["e"] == "parse"]

    def traversals(self):
        return [e for e in self.events if e["e"] == "each"]

    def origin(self, val):
        """The parse/apply event a list value ultimately comes from, following element-wise maps."""
        seen = 0
        while val is not None and seen < 20:
            seen += 1
            if val["v"] in ("parsed", "applied"):
                return val
            if val["v"] == "list":
                val = self.events[val["from"]]["over"]
            elif val["v"] == "iter":
                val = val["base"]
            elif val["v"] == "ifempty":
                return val
            else:
                return val
        return val

    # ------------------------------------------------------------------ statements
    def _block(self, blk, top=False, stmts=None):
        stmts = rx.stmts_of(blk) if stmts is None else stmts
        val = V("unit")
        for i, st in enumerate(stmts):
            last = i == len(stmts) - 1
            k = st["k"]
            if k == "expr" and not last and st["e"]["k"] == "if" and st["e"].get("else") is None and self._ends_in_return(st["e"]["then"]):
                # `if c { ..; return X; } rest`  ≡  `if c { ..; X } else { rest }`
                e = st["e"]
                c = e["cond"]
                if c["k"] == "mcall" and c["m"] == "is_empty" and not c["args"] and rx.is_var(c["recv"], self.inp):
                    self.ev_add(e="isempty", l=e.get("l"), node=e)
                    a = self._block(e["then"])
                    bb = self._block(None, top=top, stmts=stmts[i + 1 :])
                    if top:
                        return V("unit")
                    return V("ifempty", then=a, els=bb)
                self.unk(e, "conditional return")
                continue
            if k == "let":
                init = st.get("init")
                pat = strip_pat(st["pat"])
                if init is None:
                    self.unk(st, "let without initialiser")
                    continue
                # a parser bound to a name (not applied yet)
                if self.b._invocation(init, self.benv) is None and pat["k"] == "ident":
                    pv = self.b._maybe_parser_value(init, self.benv) if init["k"] in ("call", "mcall") and not self._mentions_env(init) else None
                    if pv is not None and pv["t"] not in ("opaque",) and not self._is_plain_value(init):
                        self.benv[pat["name"]] = pv
                        continue
                v = self.ev(init)
                if pat["k"] == "ident":
                    self.env[pat["name"]] = v
                elif pat["k"] == "tuple" and v["v"] == "parsed":
                    # let (list, _rest) = repeat_till(..).parse_next(input)?
                    names = [strip_pat(e).get("name") for e in pat["elems"]]
                    for j, nme in enumerate(names):
                        if nme:
                            self.env[nme] = V("parsed", ir=v["ir"], ev=v["ev"], component=j)
                elif pat["k"] == "wild":
                    pass
                else:
                    self.unk(st, "pattern in let")
            elif k == "expr":
                e = st["e"]
                if top and last and not st.get("semi"):
                    self._tail(e)
                else:
                    val = self.ev(e)
                    if last and not st.get("semi"):
                        return val
                    val = V("unit")
            elif k == "item":
                continue
            else:
                self.unk(st, "statement")
        return val

    def _ends_in_return(self, blk):
        st = rx.stmts_of(blk)
        return bool(st) and st[-1]["k"] == "expr" and st[-1]["e"]["k"] == "return"

    def _mentions_env(self, e):
        return bool(find_all(e, lambda n: n.get("k") == "path" and len(n["segs"]) == 1 and n["segs"][0] in self.env, skip_pats=True))

    def _is_plain_value(self, e):
        # RunOptions::default() and friends are values, not parsers
        return e["k"] == "call" and e["f"]["k"] == "path" and e["f"]["segs"][-1] in ("default", "new") and not e["args"]

    def _tail(self, e):
        if e["k"] == "call" and rx.path_str(e["f"]) == "Ok" and len(e["args"]) == 1:
            a = e["args"][0]
            if a["k"] == "tuple":
                self.ret = [self.ev(x) for x in a["elems"]]
                return
            if a["k"] == "struct" and a["segs"][-1] in self.facts.structs and not a.get("rest"):
                # a result record: the options component first, then the tree (by the types of the fields)
                sd = self.facts.structs[a["segs"][-1]]
                tys = {fl["name"]: F.norm_ty(fl["ty"]).split("::")[-1] for fl in sd["fields"]}
                given = {fl["name"]: fl["e"] for fl in a["fields"]}
                optf = [n_ for n_, t_ in tys.items() if t_ == "RunOptions"]
                if len(tys) == 2 and len(optf) == 1 and set(given) == set(tys):
                    other = [n_ for n_ in tys if n_ != optf[0]][0]
                    self.ret = [self.ev(given[optf[0]]), self.ev(given[other])]
                    return
            self.ret = [self.ev(a)]
            return
        self.ret = None
        self.unk(e, "tail expression is not Ok(..)")

    def _for(self, st):
        it = self.ev(st["iter"])
        if it["v"] != "iter":
            if it["v"] in ("parsed", "list", "ifempty", "vec", "applied"):
                it = V("iter", base=it, mode="into_iter", enum=False, adaptors=[])
            else:
                self.unk(st["iter"], "iterated value")
                return
        pat = strip_pat(st["pat"])
        cases = self._cases(st["body"], pat, it, mode="mutate" if it["mode"] == "iter_mut" else "effect")
        mode = "mutate" if it["mode"] == "iter_mut" else "effect"
        built = None
        if mode == "effect" and cases and not any(cs_.get("unrecognised") for cs_ in cases):
            # `let mut out = Vec::new(); for x in list { .. out.push(y) }`: when every case pushes exactly one value onto the
            # same fresh local vector (as its last effect), the loop is the element-wise map x -> y collected into `out`
            tgt = set()
            ok_ = True
            for cs_ in cases:
                pushes = [x for x in cs_["effects"] if isinstance(x, dict) and rx.peel(x).get("k") == "mcall" and rx.peel(x)["m"] == "push" and len(rx.peel(x)["args"]) == 1 and rx.var_name(rx.peel(x)["recv"]) is not None]
                if len(pushes) != 1 or rx.peel(cs_["effects"][-1]) is not rx.peel(pushes[0]):
                    ok_ = False
                    break
                tgt.add(rx.var_name(rx.peel(pushes[0])["recv"]))
            if ok_ and len(tgt) == 1:
                nm = next(iter(tgt))
                cur = self.env.get(nm)
                if isinstance(cur, dict) and ((cur["v"] == "fresh" and cur.get("ty") == "Vec") or (cur["v"] == "vec" and not cur.get("elems"))):
                    for cs_ in cases:
                        pe_ = rx.peel(cs_["effects"][-1])
                        val = pe_["args"][0]
                        catch = None
                        if cs_.get("pat") is not None:
                            p0 = strip_pat(cs_["pat"])
                            if p0["k"] == "ident" and p0.get("sub") is None:
                                catch = p0["name"]
                        cs_["result"] = "same" if (rx.is_var(val, cs_["elem"]) or (catch and rx.is_var(val, catch))) else val
                        cs_["effects"] = cs_["effects"][:-1]
                    mode = "map"
                    built = nm
        i = self.ev_add(e="each", over=it["base"], mode=mode, enum=it["enum"], adaptors=it["adaptors"], cases=cases, spelling="for", l=st.get("l"))
        if built is not None:
            self.env[built] = V("list", **{"from": i})
        if mode == "mutate":
            # the list is updated in place: from here on the variable holds the traversed list
            for nme, v in list(self.env.items()):
                if v is it["base"]:
                    self.env[nme] = V("list", **{"from": i})

    # ------------------------------------------------------------------ expressions
    def ev(self, e):
        k = e["k"]
        if k == "try":
            return self.ev(e["e"])
        if k == "ref" or (k == "unary" and e["op"] == "*"):
            return self.ev(e["e"])
        if k == "paren":
            return self.ev(e["e"])
        if k == "path":
            if len(e["segs"]) == 1 and e["segs"][0] in self.env:
                return self.env[e["segs"][0]]
            return V("path", src=src(e))
        if k == "lit":
            return V("lit", src=src(e))
        if k == "for":
            self._for(e)
            return V("unit")
        if k == "return":
            return self.ev(e["e"]) if e["e"] is not None else V("unit")
        if k == "call" and rx.path_str(e["f"]) == "Ok" and len(e["args"]) == 1 and self.depth > 0:
            return self.ev(e["args"][0])
        h = self._helper_call(e)
        if h is not None:
            return h
        inv = self.b._invocation(e, self.benv)
        if inv is not None and not (inv["t"] == "map" and inv.get("result_map")):
            fo = self._fold_of_defaults(inv)
            if fo is not None:
                got = self._fold_as_traversal(inv, fo[0], fo[1], e)
                if got is not None:
                    return got
            i = self.ev_add(e="parse", ir=inv, l=e.get("l"))
            return V("parsed", ir=inv, ev=i)
        if k == "block":
            return self._block(e)
        if k == "if":
            c = e["cond"]
            if c["k"] == "mcall" and c["m"] == "is_empty" and not c["args"] and rx.is_var(c["recv"], self.inp):
                self.ev_add(e="isempty", l=e.get("l"), node=e)
                a = self._block(e["then"])
                bb = self._block(e["else"]) if e.get("else") is not None else V("unit")
                return V("ifempty", then=a, els=bb)
            return self.unk(e, "conditional")
        if k == "macro":
            nm = e["name"].split("::")[-1]
            if nm == "vec":
                return V("vec", elems=[src(a) for a in e.get("args", [])], raw=e.get("raw"))
            if nm in LOG_MACROS:
                from .normalise import pure_expr

                if e.get("args") is not None and all(pure_expr(a) for a in e["args"]):
                    return V("unit")
                # `log::warn!("..", globals.update(&v))`: the arguments of a logging macro are evaluated only when that level is
                # enabled — whatever they do happens with one logger and not with another
                return self.unk(e, "a logging macro whose arguments do more than read: evaluated only when the level is enabled")
            return self.unk(e, "macro")
        if k == "mcall":
            return self._mcall(e)
        if k == "call":
            return self._call(e)
        if k == "tuple":
            return V("tuple", elems=[self.ev(x) for x in e["elems"]])
        return self.unk(e, "expression")

    def _helper_call(self, e):
        """A call of a private free function of the same module that the inner parse function was split into: its body is
        interpreted in place (parameters bound to the argument values, `&mut` arguments written back), unless it is a plain
        parser function (one parser expression applied to the input), which stays a parse event."""
        if e["k"] == "try":
            return None
        if not (e["k"] == "call" and e["f"]["k"] == "path"):
            return None
        r = self.b._resolve_fn_path(e["f"], self.benv)
        if r is None or r[0] not in self.facts.fns:
            return None
        fn = self.facts.fns[r[0]]
        if fn.impl is not None or fn.node.get("vis") == "pub" or fn.test or tuple(fn.module) != tuple(self.fn.module) or self.depth >= 4:
            return None
        cinp = self.b._input_name(fn)
        takes_input = cinp is not None and any(self.b._is_input(a, self.benv) for a in e["args"])
        if takes_input:
            fb = self.b.fn_ir(fn.key)
            clean = fb["t"] == "fnbody" and not fb["unknown"] and not fb["lets"] and (fb["tail"] is not None or fb["ret"] is not None)
            if clean:
                return None  # a parser function: handled as a parse event
        elif cinp is not None:
            return None  # applied to something else than the raw input (a token list): an `apply` event
        if len(fn.params) != len(e["args"]) or not all(n_ for n_, _ in fn.params):
            return None
        argv = []
        for (pn, pty), a in zip(fn.params, e["args"]):
            argv.append(None if (takes_input and pn == cinp) else self.ev(a))
        saved = (self.env, self.benv, self.inp, self.fn)
        self.env = {pn: v for (pn, _), v in zip(fn.params, argv) if v is not None}
        self.benv = {"__fn": fn, "__input": cinp if takes_input else None, "__tsubst": {}, "__module": fn.module}
        self.inp = cinp if takes_input else None
        self.depth += 1
        self.inlined.append(fn.key)
        try:
            val = self._block(fn.body)
            callee_env = self.env
        finally:
            self.env, self.benv, self.inp, self.fn = saved[0], saved[1], saved[2], saved[3]
            self.depth -= 1
        # write back what the callee did to `&mut` arguments that are plain variables of the caller
        for (pn, pty), a in zip(fn.params, e["args"]):
            if a["k"] == "ref" and a.get("mut"):
                nm = rx.var_name(a["e"])
                if nm is not None and nm in self.env and pn in callee_env:
                    self.env[nm] = callee_env[pn]
        return val

    def _fold_of_defaults(self, ir):
        """`prefix*, repeat(..).fold(T::default, |mut acc, x| { acc.update(&x); acc })`: a parser that returns the options
        object directly.  -> (IR with the fold replaced by its repetition, fold node) or None"""
        from .args import unwrap

        n = self.g.open(ir) if ir["t"] == "ref" else ir
        if n is None:
            return None
        n0 = unwrap(n)
        if n0["t"] == "fold":
            return unwrap(n0["p"]), n0
        if n0["t"] == "seq":
            kept = [i for i in n0["items"] if i["keep"]]
            if len(kept) == 1 and unwrap(kept[0]["p"])["t"] == "fold":
                fo = unwrap(kept[0]["p"])
                items = [dict(i, p=unwrap(fo["p"])) if i is kept[0] else i for i in n0["items"]]
                return dict(n0, items=items), fo
        return None

    def _fold_as_traversal(self, inv, peeled, fold, e):
        init, step = fold["init"], fold["step"]
        ty = ctor = None
        if init["k"] == "path" and len(init["segs"]) >= 2 and init["segs"][-1] in ("default", "new"):
            ty, ctor = init["segs"][-2], init["segs"][-1]
        elif init["k"] == "closure" and not init["params"]:
            cb = rx.closure_body(init)
            if cb["k"] == "call" and cb["f"]["k"] == "path" and len(cb["f"]["segs"]) >= 2 and cb["f"]["segs"][-1] in ("default", "new") and not cb["args"]:
                ty, ctor = cb["f"]["segs"][-2], cb["f"]["segs"][-1]
        if ty is None or step["k"] != "closure" or len(step["params"]) != 2:
            return None
        acc, x = [(rx.pat_bindings(p_) or [None])[0] for p_ in rx.closure_params(step)]
        stmts = rx.stmts_of(step["body"])
        if acc is None or x is None or not stmts or stmts[-1]["k"] != "expr" or stmts[-1].get("semi") or not rx.is_var(stmts[-1]["e"], acc):
            return None
        effects = [st_["e"] for st_ in stmts[:-1] if st_["k"] == "expr"]
        if len(effects) != len(stmts) - 1:
            return None
        i = self.ev_add(e="parse", ir=peeled, l=e.get("l"), via=inv)
        lst = V("parsed", ir=peeled, ev=i)
        opts = V("fresh", ty=ty, ctor=ctor, src=src(init), via_fold=True)
        self.ev_add(e="each", over=lst, mode="effect", enum=False, adaptors=[], cases=[dict(elem=x, index=None, pat=None, guard=None, effects=effects, result=None, env={acc: opts})], spelling=".fold", l=e.get("l"))
        return opts

    def _call(self, e):
        f = e["f"]
        if f["k"] == "path":
            segs = f["segs"]
            if segs[-1] in ("default", "new") and not e["args"] and len(segs) >= 2:
                return V("fresh", ty=segs[-2], ctor=segs[-1], src=src(e))
            if segs[-2:] == ["Vec", "with_capacity"] and len(e["args"]) == 1:
                return V("fresh", ty="Vec", ctor="new", src=src(e))  # the capacity is a hint only
            # application of a parser function to a list value: precedence::parser(&mut tokens.as_slice())
            r = self.b._resolve_fn_path(f, self.benv)
            if r is not None and len(e["args"]) == 1:
                a = self.ev(e["args"][0])
                i = self.ev_add(e="apply", fn=r[0], arg=a, l=e.get("l"))
                return V("applied", fn=r[0], arg=a, ev=i)
            if segs[-1] == "parse_next" and len(e["args"]) == 2:
                p = F.find_all(e["args"][0], lambda n: n.get("k") == "path")
                a = self.ev(e["args"][1])
                for q in p:
                    r = self.b._resolve_fn_path(q, self.benv)
                    if r is not None:
                        i = self.ev_add(e="apply", fn=r[0], arg=a, l=e.get("l"))
                        return V("applied", fn=r[0], arg=a, ev=i)
        return self.unk(e, "call")

    def _mcall(self, e):
        m = e["m"]
        # P.parse_next(&mut list.as_slice()) where P is a parser function and the argument is not the raw input
        if m == "parse_next" and len(e["args"]) == 1 and e["recv"]["k"] == "path":
            r = self.b._resolve_fn_path(e["recv"], self.benv)
            if r is not None:
                a = self.ev(e["args"][0])
                i = self.ev_add(e="apply", fn=r[0], arg=a, l=e.get("l"))
                return V("applied", fn=r[0], arg=a, ev=i)
        recv = self.ev(e["recv"])
        listish = recv["v"] in ("parsed", "list", "ifempty", "vec", "applied")
        if m in ("iter", "into_iter", "iter_mut") and not e["args"] and listish:
            return V("iter", base=recv, mode=m, enum=False, adaptors=[])
        if recv["v"] == "iter":
            if m == "enumerate" and not e["args"]:
                return dict(recv, enum=True)
            if m in ("map", "for_each") and len(e["args"]) == 1:
                clo = self.b.as_closure(e["args"][0], self.benv) if e["args"][0]["k"] == "path" else e["args"][0]
                if clo["k"] != "closure" or len(clo["params"]) != 1:
                    return self.unk(e, "closure")
                pat = strip_pat(clo["params"][0])
                mode = "map" if m == "map" else "effect"
                cases = self._cases(clo["body"], pat, recv, mode)
                i = self.ev_add(e="each", over=recv["base"], mode=mode, enum=recv["enum"], adaptors=recv["adaptors"], cases=cases, spelling="." + m, l=e.get("l"))
                if m == "map":
                    return V("iter", base=V("list", **{"from": i}), mode="into_iter", enum=False, adaptors=[])
                return V("unit")
            if m == "collect":
                if recv["adaptors"] or recv["enum"]:
                    return self.unk(e, "collect after %s" % recv["adaptors"])
                return recv["base"]
            return dict(recv, adaptors=recv["adaptors"] + [m])
        if m in TRANSPARENT and listish:
            return recv
        if recv["v"] in ("fresh", "opts"):
            # a helper method of the options type other than the registration function itself (`update_all(list)`): its body is
            # interpreted in place with `self` = the options object and the parameters bound to the argument values
            oty = None
            for k_, f_ in self.facts.fns.items():
                if f_.impl is not None and not f_.impl.get("trait") and f_.name == m and not f_.test and f_.node.get("self") is not None and len([p_ for p_ in f_.params if p_[0] != "self"]) == len(e["args"]) and F.norm_ty(f_.impl["self_ty"]).split("<")[0] in ("RunOptions",) + tuple(t_ for t_ in self.facts.structs if t_.endswith("Options")):
                    oty = f_
            if oty is not None and self.depth < 4 and find_all(oty.body, lambda n_: n_.get("k") == "mcall" and n_["m"] != m and rx.is_var(n_["recv"], "self")):
                argv = [self.ev(a) for a in e["args"]]
                saved = (self.env, self.benv, self.inp, self.fn)
                self.env = dict({pn: v for (pn, _), v in zip([p_ for p_ in oty.params if p_[0] != "self"], argv)}, self=recv)
                self.benv = {"__fn": oty, "__input": None, "__tsubst": {}, "__module": oty.module}
                self.inp = None
                self.depth += 1
                self.inlined.append(oty.key)
                try:
                    val = self._block(oty.body)
                finally:
                    self.env, self.benv, self.inp, self.fn = saved
                    self.depth -= 1
                return val
            for a in e["args"]:
                self.ev(a)  # (parse events inside the arguments keep their place in the order of events)
            return self.unk(e, "method on the options object outside an element-wise traversal")
        for a in e["args"]:
            self.ev(a)
        return self.unk(e, "method call")

    # ------------------------------------------------------------------ element-wise cases
    def _cases(self, body, pat, it, mode):
        """[{pat, binds, effects, result}] — result is an expression node, 'same' or None (effect mode)."""
        elem, idx = None, None
        if it["enum"]:
            if pat["k"] == "tuple" and len(pat["elems"]) == 2:
                idx = strip_pat(pat["elems"][0]).get("name")
                elem = strip_pat(pat["elems"][1]).get("name")
        else:
            elem = pat.get("name") if pat["k"] == "ident" else None
        info = {"elem": elem, "index": idx, "env": dict(self.env)}
        body = rx.peel(body) if body["k"] != "block" or len(body["stmts"]) != 1 else body
        # unwrap a block holding exactly one match / if-let
        inner = body
        if inner["k"] == "block" and len(inner["stmts"]) == 1 and inner["stmts"][0]["k"] == "expr":
            inner = inner["stmts"][0]["e"]
        cases = []
        if elem is None:
            return [dict(info, pat=None, effects=[body], result=None, unrecognised="element pattern %s" % F.psrc(pat))]
        if inner["k"] == "match" and rx.is_var(inner["scrut"], elem):
            for arm in inner["arms"]:
                eff, res = self._arm(arm["body"], elem, mode, arm["pat"])
                cases.append(dict(info, pat=arm["pat"], guard=arm.get("guard"), effects=eff, result=res))
            return cases
        if inner["k"] == "if" and inner["cond"]["k"] == "letexpr" and rx.is_var(inner["cond"]["e"], elem):
            eff, res = self._arm(inner["then"], elem, mode, inner["cond"]["pat"])
            cases.append(dict(info, pat=inner["cond"]["pat"], guard=None, effects=eff, result=res))
            if inner.get("else") is not None:
                eff, res = self._arm(inner["else"], elem, mode, None)
                cases.append(dict(info, pat=None, guard=None, effects=eff, result=res))
            else:
                cases.append(dict(info, pat=None, guard=None, effects=[], result="same" if mode == "mutate" else None))
            return cases
        eff, res = self._arm(body, elem, mode, None)
        return [dict(info, pat=None, guard=None, effects=eff, result=res)]

    def _arm(self, body, elem, mode, pat):
        stmts = rx.stmts_of(body)
        effects, result = [], None
        catch = None
        if pat is not None:
            p = strip_pat(pat)
            if p["k"] == "ident" and p.get("sub") is None:
                catch = p["name"]
        for i, st in enumerate(stmts):
            last = i == len(stmts) - 1
            if st["k"] == "expr":
                e = st["e"]
                if mode == "mutate" and e["k"] == "assign" and e["lhs"]["k"] == "unary" and e["lhs"]["op"] == "*" and rx.is_var(e["lhs"]["e"], elem):
                    result = e["rhs"]
                    continue
                if mode == "map" and last and e["k"] == "return" and e.get("e") is not None:
                    # `return X` closing an arm of the closure is the closure's value on that arm
                    e = e["e"]
                    result = "same" if (rx.is_var(e, elem) or (catch and rx.is_var(e, catch))) else e
                    continue
                if mode == "map" and last and not st.get("semi"):
                    result = "same" if (rx.is_var(e, elem) or (catch and rx.is_var(e, catch))) else e
                    continue
                if e["k"] == "macro" and e["name"].split("::")[-1] in LOG_MACROS:
                    from .normalise import pure_expr

                    if e.get("args") is not None and all(pure_expr(a) for a in e["args"]):
                        continue
                effects.append(e)
            elif st["k"] == "macro" or st["k"] == "item":
                continue
            else:
                effects.append(st)
        if mode == "mutate" and result is None:
            result = "same"
        return effects, result


    # ------------------------------------------------------------------ queries used by the rules
    def is_update_of(self, effect, upd_name, opts_val, binding, env=None):
        """`<options>.update(&binding)` where <options> is the given options object and binding the case's payload variable.
        `env`: the variables as they were where the effect is written (a case's snapshot)."""
        e = rx.peel(effect)
        if not (e.get("k") == "mcall" and e["m"] == upd_name and len(e["args"]) == 1):
            return False
        r = rx.peel(e["recv"])
        env = self.env if env is None else env
        if not (r.get("k") == "path" and len(r["segs"]) == 1 and env.get(r["segs"][0]) is opts_val):
            return False
        return binding is not None and rx.is_var(e["args"][0], binding)


def summarise(facts, b, g, fnkey):
    return Inner(facts, b, g, fnkey)
