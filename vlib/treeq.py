"""Structural-induction checker for the recursive 'exists' helpers on Expression (action, complex_frames)."""
from . import rx
from .facts import src, psrc, find_all, norm_ty


def or_operands(e):
    e = rx.peel(e)
    if e["k"] == "binary" and e["op"] == "||":
        return or_operands(e["lhs"]) + or_operands(e["rhs"])
    return [e]


def check_exists(facts, fn, expr_enum="Expression", op_enum="Operator"):
    """Returns dict(ok, problems[], leaf (the Action arm body), hidden (variants behind wildcard))."""
    problems = []
    accounted = {fn.key}
    name = fn.name
    body = rx.tail_expr(fn.body)
    stmts = fn.body["stmts"]
    if body is None or body["k"] != "match" or len(stmts) != 1 or not rx.is_var(body["scrut"], "self"):
        return dict(ok=None, problems=["body is not a single `match self`"], leaf=None, hidden=[])
    if fn.node["self"] != "&self" or norm_ty(fn.node["output"]) != "bool":
        problems.append("signature is not (&self) -> bool")
    evars = facts.variants(expr_enum)
    ovars = {v["name"]: [norm_ty(f["ty"]) for f in v["fields"]] for v in facts.enum(op_enum)["variants"]}
    explicit = {}
    wild = None
    for arm in body["arms"]:
        for p in rx.pat_cases(arm["pat"]):
            pv = rx.pat_variant(p)
            if pv:
                explicit.setdefault(pv[0].split("::")[-1], (p, arm))
            elif rx.is_catchall(p):
                wild = arm
            else:
                problems.append("unrecognised arm pattern %s" % psrc(p))
        if arm["guard"] is not None:
            problems.append("guarded arm %s" % psrc(arm["pat"]))
    hidden = [v for v in evars if v not in explicit]
    if hidden and wild is None:
        problems.append("variants %s not covered" % hidden)
    if wild is not None:
        wb = rx.peel(wild["body"])
        if not (wb["k"] == "lit" and wb["v"] is False):
            problems.append("wildcard arm yields %s, not false" % src(wb))
        for hv in hidden:
            if hv in ("Action", "Operator"):
                problems.append("variant %s is hidden behind the wildcard (treated as 'no')" % hv)
    leaf = explicit.get("Action", (None, None))[1]
    # operator recursion
    if "Operator" not in explicit:
        problems.append("no arm for Expression::Operator")
    else:
        p, arm = explicit["Operator"]
        binds = rx.pat_bindings(p)
        ob = rx.peel(arm["body"])
        holds = None  # name of a function parameter standing for the recursive call (higher-order helper)
        if ob["k"] == "mcall" and binds and len(ob["args"]) == 1:
            # op.any_operand(Expression::action): a method of the operator type applying its argument to the operands
            a0 = rx.peel(ob["args"][0])
            base, chain = rx.method_chain(ob["recv"])
            hk = "%s::%s" % (op_enum, ob["m"])
            h = facts.fns.get(hk)
            selfref = a0.get("k") == "path" and a0["segs"][-1] == name and (len(a0["segs"]) == 1 or a0["segs"][-2] in ("Self", expr_enum, "Exp"))
            if h is not None and selfref and rx.is_var(base, binds[0]) and all(m in ("as_ref", "deref", "borrow") for m, _, _ in chain) and h.node.get("self") in ("&self", "self"):
                hp = [n_ for n_, _ in h.params if n_ != "self"]
                ht = rx.tail_expr(h.body)
                if len(hp) == 1 and ht is not None and len(h.body["stmts"]) == 1 and ht["k"] == "match" and rx.is_var(ht["scrut"], "self"):
                    holds = hp[0]
                    accounted.add(hk)
                    ob = dict(ht, scrut={"k": "path", "segs": [binds[0]], "gen": [None], "l": ht.get("l")})
        if ob["k"] != "match" or not binds:
            problems.append("Operator arm is not a match on the operator")
        else:
            sc = ob["scrut"]
            base, chain = rx.method_chain(sc)
            if not (rx.is_var(base, binds[0]) and all(m in ("as_ref", "deref", "borrow") for m, _, _ in chain)):
                problems.append("inner match scrutinee is %s" % src(sc))
            seen = {}
            for a2 in ob["arms"]:
                cases = rx.pat_cases(a2["pat"])
                if a2["guard"] is not None:
                    problems.append("guarded operator arm")
                bodies = or_operands(a2["body"])
                for pc in cases:
                    pv = rx.pat_variant(pc)
                    if not pv:
                        if rx.is_catchall(pc):
                            problems.append("wildcard operator arm: a new operator would silently be treated as %s" % src(a2["body"]))
                        else:
                            problems.append("unrecognised operator pattern %s" % psrc(pc))
                        continue
                    vn = pv[0].split("::")[-1]
                    subs = pv[1]
                    names = []
                    for sp in subs:
                        if sp["k"] == "ident":
                            names.append(sp["name"])
                        else:
                            names.append(None)
                    seen[vn] = True
                    if vn not in ovars:
                        problems.append("unknown operator variant %s" % vn)
                        continue
                    if len(subs) != len(ovars[vn]) or None in names:
                        problems.append("%s: not every sub-expression is bound (%s)" % (vn, psrc(pc)))
                        continue
                    # every bound sub-expression is queried exactly once, results joined by || only
                    called = []
                    for b_ in bodies:
                        if holds is None and b_["k"] == "mcall" and b_["m"] == name and not b_["args"] and rx.var_name(b_["recv"]) is not None:
                            called.append(rx.var_name(b_["recv"]))
                        elif holds is not None and b_["k"] == "call" and rx.is_var(b_["f"], holds) and len(b_["args"]) == 1 and rx.var_name(b_["args"][0]) is not None:
                            called.append(rx.var_name(b_["args"][0]))
                        else:
                            problems.append("%s: operand `%s` of the disjunction is not a recursive call" % (vn, src(b_)))
                    if sorted(called) != sorted(names):
                        problems.append("%s: sub-expressions %s, recursive calls on %s" % (vn, names, called))
            for vn in ovars:
                if vn not in seen:
                    problems.append("operator variant %s has no arm" % vn)
    return dict(ok=not problems, problems=problems, leaf=leaf, hidden=hidden, accounted=sorted(accounted))
