"""Structural-induction checker for the recursive 'exists' helpers on Expression (action, complex_frames)."""
from . import rx
from .facts import src, psrc, find_all, norm_ty


def or_operands(e):
    e = rx.peel(e)
    if e["k"] == "binary" and e["op"] == "||":
        return or_operands(e["lhs"]) + or_operands(e["rhs"])
    return [e]


def traversal_form(facts, fn, expr_enum="Expression", op_enum="Operator"):
    """`fn` written as `ITER.any(PRED)` where ITER is a hand-written iterator of the crate over the nodes of the tree (an
    explicit work list instead of recursion).  Decided by induction on what is left to visit, the step being *evaluated*:

      - ITER starts with exactly the root pending;
      - one `next()` on a state whose work list holds an unknown rest R and a node X — X of every node kind in turn, operator
        nodes with unknown operands — returns Some(X) and leaves exactly R plus every operand of X pending (each once, in
        whatever order, stack or queue), touching nothing else; on an empty work list it returns None.

    Hence ITER yields every node of the tree exactly once, and `fn` is "PRED holds for some node".
    -> None if `fn` is not of this form, else dict(pred=callable(node) -> value, problems=[..], iterator=type name)"""
    from . import probe as P

    pr = P.Probe(facts, expr_enum, fn.module)
    root = P.Opq("root")
    marker = P.Opq("any(..)")
    got = {}

    def hook(pr_, e, env):
        recv = pr_.ev(e["recv"], env)
        if not (isinstance(recv, dict) and recv.get("__ty") and len(e["args"]) == 1):
            return NotImplemented
        nxt = facts.fns.get("<%s as Iterator>::next" % recv["__ty"])
        if nxt is None or "state" in got:
            return NotImplemented
        got.update(state=recv, pred=pr_.ev(e["args"][0], env), next=nxt)
        return marker

    pr.mhooks["any"] = hook

    def through(pr_, e, env):
        # a method of the tree type called on the (unknown) root: the crate's own function, evaluated
        recv = pr_.ev(e["recv"], env)
        f_ = facts.fns.get("%s::%s" % (expr_enum, e["m"]))
        if recv is root and f_ is not None and f_.key != fn.key:
            return pr_.invoke(f_, root, [pr_.ev(a, env) for a in e["args"]])
        return NotImplemented

    for f_ in facts.fns.values():
        if f_.impl is not None and not f_.test and norm_ty(f_.impl["self_ty"]) == expr_enum and not f_.impl.get("trait") and f_.name != "any":
            pr.mhooks[f_.name] = through
    try:
        res = pr.invoke(fn, root, [])
    except (P.NoEval, P.Panic):
        return None
    if "state" not in got:
        return None
    problems = []
    if res is not marker:
        problems.append("the result is not the `any(..)` over the traversal itself (%r)" % (res,))
    st0, nxt = got["state"], got["next"]
    lists = [k for k, v in st0.items() if isinstance(v, list)]
    if len(lists) != 1 or len(st0[lists[0]]) != 1 or st0[lists[0]][0] is not root:
        problems.append("the traversal does not start with exactly the root pending (%s)" % ({k: v for k, v in st0.items() if k != "__ty"},))
        return dict(pred=None, problems=problems, iterator=st0["__ty"], accounted={nxt.key})
    wl = lists[0]
    others = {k: v for k, v in st0.items() if k not in (wl, "__ty")}
    oinfo = {v["name"]: len(v["fields"]) for v in facts.enum(op_enum)["variants"]}
    kinds = []
    for v in facts.variants(expr_enum):
        if v == "Operator":
            for w, n in oinfo.items():
                subs = [P.Opq("%s.%d" % (w, i)) for i in range(n)]
                kinds.append(("%s::%s" % (op_enum, w), ("enum", "%s::Operator" % expr_enum, [("enum", "%s::%s" % (op_enum, w), list(subs))]), subs))
        else:
            kinds.append(("%s::%s" % (expr_enum, v), ("enum", "%s::%s" % (expr_enum, v), [P.Opq("payload") for _ in facts.variant_fields(expr_enum, v)]), []))
    accounted = {nxt.key}
    for name, X, subs in kinds:
        for before in ([P.Opq("rest"), X], [X, P.Opq("rest")]):
            rest = [x for x in before if x is not X]
            state = dict(st0, **{wl: list(before)})
            state.update({k: (list(v) if isinstance(v, list) else v) for k, v in others.items()})
            p2 = P.Probe(facts, st0["__ty"], nxt.module)
            try:
                r = p2.invoke(nxt, state, [])
            except (P.NoEval, P.Panic) as ex:
                problems.append("next() on a pending %s node is not evaluable: %s" % (name, ex))
                break
            finally:
                accounted.update(p2.invoked)
            if not (isinstance(r, tuple) and len(r) == 2 and r[0] == "some"):
                problems.append("next() with a %s node pending returns %r" % (name, r))
                break
            if r[1] is X:
                after = state[wl]
                want = sorted(map(id, rest + subs))
                if not isinstance(after, list) or sorted(map(id, after)) != want:
                    missing = [repr(x) for x in subs if not any(y is x for y in (after if isinstance(after, list) else []))]
                    problems.append("after visiting a %s node the pending nodes are %r: %s" % (name, after, ("its operand(s) %s are never visited" % ", ".join(missing)) if missing else "not the rest plus each operand once"))
                    break
                if any(state.get(k) != v for k, v in others.items()):
                    problems.append("next() on a %s node changes %s" % (name, [k for k, v in others.items() if state.get(k) != v]))
                    break
                break  # the node taken was X: this is the order the work list is served in
            # the other end of the work list was served (the unknown rest): try the other order
        else:
            problems.append("next() never serves a pending %s node" % name)
    p3 = P.Probe(facts, st0["__ty"], nxt.module)
    try:
        r = p3.invoke(nxt, dict(st0, **{wl: []}), [])
        if r is not None:
            problems.append("next() on an empty work list returns %r, not None" % (r,))
    except (P.NoEval, P.Panic) as ex:
        problems.append("next() on an empty work list is not evaluable: %s" % ex)
    predv = got["pred"]

    def pred(node):
        return pr.apply(predv, [node])

    # an operator node itself must not satisfy the predicate by looking into its operands (they are visited on their own)
    for name, X, subs in kinds:
        if subs or name.startswith(op_enum + "::"):
            try:
                v = pred(X)
            except (P.NoEval, P.Panic) as ex:
                problems.append("the predicate on a %s node is not evaluable (%s)" % (name, ex))
                continue
            if v is not False:
                problems.append("the predicate yields %r on a %s node" % (v, name))
    accounted.update(pr.invoked)
    return dict(pred=pred, problems=problems, iterator=st0["__ty"], accounted=accounted, probe=pr)


def check_exists(facts, fn, expr_enum="Expression", op_enum="Operator"):
    """`fn` (Expression -> bool) is a correct recursive 'exists over the action nodes', by structural induction whose cases
    are *evaluated* (vlib/probe.py):

      - a node that is neither an operator nor an action yields false;
      - an operator node with sub-expressions e1..ek yields r1 || .. || rk for every assignment of booleans ri, where ri is
        what a recursive call on ei returns (the induction hypothesis: a call of `fn` itself, or of a helper currently
        being evaluated, with the very same extra arguments, on ei);
      - an action node yields the per-action value, returned as a table for the caller to compare with the statement.

    Whatever way the function is written (one match, helpers returning the operands, a generic any_action(pred) helper,
    is_some_and, early returns) only what it computes counts.
    -> dict(ok, problems, hidden, accounted (crate functions evaluated), action: {variant: [(payload description, value)]})"""
    import itertools
    from . import probe as P

    problems = []
    evars = facts.variants(expr_enum)
    oinfo = {v["name"]: [norm_ty(f["ty"]) for f in v["fields"]] for v in facts.enum(op_enum)["variants"]}
    if fn.node["self"] != "&self" or norm_ty(fn.node["output"]) != "bool":
        problems.append("signature is not (&self) -> bool")
    methods = {f_.name for f_ in facts.fns.values() if f_.impl is not None and norm_ty(f_.impl["self_ty"]) == expr_enum and not f_.impl.get("trait")}
    invoked = set()

    def run(selfv, subs=(), assign=()):
        pr = P.Probe(facts, expr_enum, fn.module)
        amap = {id(x): v for x, v in zip(subs, assign)}

        def hook(pr_, e, env):
            recv = pr_.ev(e["recv"], env)
            if not (isinstance(recv, P.Opq) and id(recv) in amap):
                return NotImplemented
            args = [pr_.ev(a, env) for a in e["args"]]
            if e["m"] == fn.name and not args:
                return bool(amap[id(recv)])
            for f_, sv_, av_ in reversed(pr_.frames):
                if f_.name == e["m"] and f_.impl is not None and norm_ty(f_.impl["self_ty"]) == expr_enum and len(av_) == len(args) and all(a is b_ for a, b_ in zip(args, av_)):
                    return bool(amap[id(recv)])
            raise P.NoEval("`.%s(..)` on a sub-expression is not a recursive call with the same arguments" % e["m"])

        def ihook(pr_, f_, sv_, av_):
            # the same recursion through a function value: holds(e) with holds = Expression::action
            if isinstance(sv_, P.Opq) and id(sv_) in amap and f_.impl is not None and norm_ty(f_.impl["self_ty"]) == expr_enum:
                if f_.key == fn.key and not av_:
                    return bool(amap[id(sv_)])
                for g_, _, bv_ in reversed(pr_.frames):
                    if g_.key == f_.key and len(bv_) == len(av_) and all(a is b_ for a, b_ in zip(av_, bv_)):
                        return bool(amap[id(sv_)])
                raise P.NoEval("`%s` applied to a sub-expression is not a recursive call with the same arguments" % f_.key)
            return NotImplemented

        pr.invoke_hook = ihook
        for m_ in methods:
            pr.mhooks[m_] = hook
        try:
            return pr.invoke(fn, selfv, [])
        finally:
            invoked.update(pr.invoked)

    trav = traversal_form(facts, fn, expr_enum, op_enum)
    if trav is not None:
        problems += trav["problems"]
        invoked.update(trav.get("accounted") or ())
        if trav["pred"] is None:
            return dict(ok=False, problems=problems, hidden=[], accounted=sorted(invoked | {fn.key}), action={}, leaf=None, traversal=trav["iterator"])
        run_rec = run

        def run(selfv, subs=(), assign=()):
            return trav["pred"](selfv)

    ok_all = True
    try:
        # leaves
        hidden = []
        for v in evars:
            if v in ("Operator", "Action"):
                continue
            hidden.append(v)
            r = run(("enum", "%s::%s" % (expr_enum, v), [P.Opq("payload") for _ in facts.variant_fields(expr_enum, v)]))
            if r is not False:
                problems.append("a %s node yields %r, not false" % (v, r))
        # operators (the traversal form has no recursion: its step was decided above)
        for w, ftys in (oinfo.items() if trav is None else ()):
            subs = [P.Opq("sub%d" % i) for i in range(len(ftys))]
            node = ("enum", "%s::Operator" % expr_enum, [("enum", "%s::%s" % (op_enum, w), list(subs))])
            for assign in itertools.product((False, True), repeat=len(subs)):
                try:
                    r = run(node, subs, assign)
                except P.NoEval as ex:
                    problems.append("%s: %s" % (w, ex))
                    break
                if r is not any(assign):
                    problems.append("%s with sub-results %s yields %r, not their disjunction" % (w, list(assign), r))
                    break
        # actions
        ints = {0, 1, 7, 8, 10, 12, 13, 255, 65535}
        for f_ in facts.fns.values():
            if not f_.test and tuple(f_.module) == tuple(fn.module):
                for n_ in find_all(f_.body, lambda n_: n_.get("k") == "lit" and n_.get("t") == "int"):
                    if 0 <= int(n_["v"]) <= 65535:
                        ints.add(int(n_["v"]))
        for f_ in facts.fns.values():
            if not f_.test and tuple(f_.module) == tuple(fn.module):
                for n_ in find_all(f_.node, lambda n_: isinstance(n_, dict) and n_.get("k") == "lit" and n_.get("t") == "int"):
                    if 0 <= int(n_["v"]) <= 65535:
                        ints.add(int(n_["v"]))
        ints = sorted(ints)
        action = {}
        for a in facts.variants("Action"):
            ftys = [norm_ty(t) for t in facts.variant_fields("Action", a)]
            lists = [i for i, t in enumerate(ftys) if t.startswith("Vec<FormatElement")]
            shapes = [()]
            if lists:
                # every kind of format element the predicate could tell apart: each escape (the numbered one with every
                # number the module's code mentions and some it does not), each directive, an empty and a non-empty literal
                elems = []
                for sv in facts.variants("FormatSpecial"):
                    nf = len(facts.variant_fields("FormatSpecial", sv))
                    if nf == 0:
                        elems.append(("enum", "FormatElement::Special", [("enum", "FormatSpecial::%s" % sv, [])]))
                    else:
                        for n_ in ints:
                            elems.append(("enum", "FormatElement::Special", [("enum", "FormatSpecial::%s" % sv, [n_] * nf)]))
                for fv_ in facts.variants("FormatField"):
                    ftys_ = [norm_ty(t) for t in facts.variant_fields("FormatField", fv_)]
                    elems.append(("enum", "FormatElement::Field", [("enum", "FormatField::%s" % fv_, ["n" if t == "char" else "x" for t in ftys_])]))
                elems += [("enum", "FormatElement::Literal", ["x"]), ("enum", "FormatElement::Literal", [""]), ("enum", "FormatElement::Literal", ["\n"])]
                shapes = [()] + [(x,) for x in elems] + [(x, y) for x in elems for y in elems]
            rows = []
            for sh in shapes:
                pay = [list(sh) if i in lists else P.Opq("payload") for i in range(len(ftys))]
                try:
                    r = run(("enum", "%s::Action" % expr_enum, [("enum", "Action::%s" % a, pay)]))
                except P.NoEval as ex:
                    r = "not evaluable: %s" % ex
                desc = None if not lists else ("empty" if not sh else ("ends in newline" if sh[-1][1] == "FormatElement::Special" and sh[-1][2][0][1] == "FormatSpecial::Newline" else "ends in something else"))
                if (desc, r) not in rows:
                    rows.append((desc, r))
                elif isinstance(r, str):
                    break
            action[a] = rows
    except (P.NoEval, P.Panic) as ex:
        return dict(ok=None, problems=["not evaluable: %s" % ex], hidden=[], accounted=sorted(invoked | {fn.key}), action={}, leaf=None)
    if trav is not None and trav.get("probe") is not None:
        invoked.update(trav["probe"].invoked)
    return dict(ok=not problems, problems=problems, hidden=hidden, accounted=sorted(invoked | {fn.key}), action=action, leaf=None)


def check_exists_syntactic(facts, fn, expr_enum="Expression", op_enum="Operator"):
    """(kept for the positive control) Returns dict(ok, problems[], leaf (the Action arm body), hidden (variants behind wildcard))."""
    problems = []
    accounted = {fn.key}
    name = fn.name
    body = rx.tail_expr(fn.body)
    stmts = fn.body["stmts"]
    if body is None or body["k"] != "match" or len(stmts) != 1 or not rx.is_var(body["scrut"], "self"):
        return dict(ok=None, problems=["body is not a single `match self`"], leaf=None, hidden=[])
    if fn.node["self"] != "&self" or norm_ty(fn.node["output"]) != "bool":
        problems.append("signature is not (&self) -> bool")
    evars = facts.variants(expr_enum)
    ovars = {v["name"]: [norm_ty(f["ty"]) for f in v["fields"]] for v in facts.enum(op_enum)["variants"]}
    explicit = {}
    wild = None
    for arm in body["arms"]:
        for p in rx.pat_cases(arm["pat"]):
            pv = rx.pat_variant(p)
            if pv:
                explicit.setdefault(pv[0].split("::")[-1], (p, arm))
            elif rx.is_catchall(p):
                wild = arm
            else:
                problems.append("unrecognised arm pattern %s" % psrc(p))
        if arm["guard"] is not None:
            problems.append("guarded arm %s" % psrc(arm["pat"]))
    hidden = [v for v in evars if v not in explicit]
    if hidden and wild is None:
        problems.append("variants %s not covered" % hidden)
    if wild is not None:
        wb = rx.peel(wild["body"])
        if not (wb["k"] == "lit" and wb["v"] is False):
            problems.append("wildcard arm yields %s, not false" % src(wb))
        for hv in hidden:
            if hv in ("Action", "Operator"):
                problems.append("variant %s is hidden behind the wildcard (treated as 'no')" % hv)
    leaf = explicit.get("Action", (None, None))[1]
    # operator recursion
    if "Operator" not in explicit:
        problems.append("no arm for Expression::Operator")
    else:
        p, arm = explicit["Operator"]
        binds = rx.pat_bindings(p)
        ob = rx.peel(arm["body"])
        holds = None  # name of a function parameter standing for the recursive call (higher-order helper)
        if ob["k"] == "mcall" and binds and len(ob["args"]) == 1:
            # op.any_operand(Expression::action): a method of the operator type applying its argument to the operands
            a0 = rx.peel(ob["args"][0])
            base, chain = rx.method_chain(ob["recv"])
            hk = "%s::%s" % (op_enum, ob["m"])
            h = facts.fns.get(hk)
            selfref = a0.get("k") == "path" and a0["segs"][-1] == name and (len(a0["segs"]) == 1 or a0["segs"][-2] in ("Self", expr_enum, "Exp"))
            if h is not None and selfref and rx.is_var(base, binds[0]) and all(m in ("as_ref", "deref", "borrow") for m, _, _ in chain) and h.node.get("self") in ("&self", "self"):
                hp = [n_ for n_, _ in h.params if n_ != "self"]
                ht = rx.tail_expr(h.body)
                if len(hp) == 1 and ht is not None and len(h.body["stmts"]) == 1 and ht["k"] == "match" and rx.is_var(ht["scrut"], "self"):
                    holds = hp[0]
                    accounted.add(hk)
                    ob = dict(ht, scrut={"k": "path", "segs": [binds[0]], "gen": [None], "l": ht.get("l")})
        if ob["k"] != "match" or not binds:
            problems.append("Operator arm is not a match on the operator")
        else:
            sc = ob["scrut"]
            base, chain = rx.method_chain(sc)
            if not (rx.is_var(base, binds[0]) and all(m in ("as_ref", "deref", "borrow") for m, _, _ in chain)):
                problems.append("inner match scrutinee is %s" % src(sc))
            seen = {}
            for a2 in ob["arms"]:
                cases = rx.pat_cases(a2["pat"])
                if a2["guard"] is not None:
                    problems.append("guarded operator arm")
                bodies = or_operands(a2["body"])
                for pc in cases:
                    pv = rx.pat_variant(pc)
                    if not pv:
                        if rx.is_catchall(pc):
                            problems.append("wildcard operator arm: a new operator would silently be treated as %s" % src(a2["body"]))
                        else:
                            problems.append("unrecognised operator pattern %s" % psrc(pc))
                        continue
                    vn = pv[0].split("::")[-1]
                    subs = pv[1]
                    names = []
                    for sp in subs:
                        if sp["k"] == "ident":
                            names.append(sp["name"])
                        else:
                            names.append(None)
                    seen[vn] = True
                    if vn not in ovars:
                        problems.append("unknown operator variant %s" % vn)
                        continue
                    if len(subs) != len(ovars[vn]) or None in names:
                        problems.append("%s: not every sub-expression is bound (%s)" % (vn, psrc(pc)))
                        continue
                    # every bound sub-expression is queried exactly once, results joined by || only
                    called = []
                    for b_ in bodies:
                        if holds is None and b_["k"] == "mcall" and b_["m"] == name and not b_["args"] and rx.var_name(b_["recv"]) is not None:
                            called.append(rx.var_name(b_["recv"]))
                        elif holds is not None and b_["k"] == "call" and rx.is_var(b_["f"], holds) and len(b_["args"]) == 1 and rx.var_name(b_["args"][0]) is not None:
                            called.append(rx.var_name(b_["args"][0]))
                        else:
                            problems.append("%s: operand `%s` of the disjunction is not a recursive call" % (vn, src(b_)))
                    if sorted(called) != sorted(names):
                        problems.append("%s: sub-expressions %s, recursive calls on %s" % (vn, names, called))
            for vn in ovars:
                if vn not in seen:
                    problems.append("operator variant %s has no arm" % vn)
    return dict(ok=not problems, problems=problems, leaf=leaf, hidden=hidden, accounted=sorted(accounted))
