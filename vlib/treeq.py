"""Structural-induction checker for the recursive 'exists' helpers on Expression (action, complex_frames)."""
from . import rx
from .facts import src, psrc, find_all, norm_ty


def or_operands(e):
    e = rx.peel(e)
    if e["k"] == "binary" and e["op"] == "||":
        return or_operands(e["lhs"]) + or_operands(e["rhs"])
    return [e]


def check_exists(facts, fn, expr_enum="Expression", op_enum="Operator"):
    """`fn` (Expression -> bool) is a correct recursive 'exists over the action nodes', by structural induction whose cases
    are *evaluated* (vlib/probe.py):

      - a node that is neither an operator nor an action yields false;
      - an operator node with sub-expressions e1..ek yields r1 || .. || rk for every assignment of booleans ri, where ri is
        what a recursive call on ei returns (the induction hypothesis: a call of `fn` itself, or of a helper currently
        being evaluated, with the very same extra arguments, on ei);
      - an action node yields the per-action value, returned as a table for the caller to compare with the statement.

    Whatever way the function is written (one match, helpers returning the operands, a generic any_action(pred) helper,
    is_some_and, early returns) only what it computes counts.
    -> dict(ok, problems, hidden, accounted (crate functions evaluated), action: {variant: [(payload description, value)]})"""
    import itertools
    from . import probe as P

    problems = []
    evars = facts.variants(expr_enum)
    oinfo = {v["name"]: [norm_ty(f["ty"]) for f in v["fields"]] for v in facts.enum(op_enum)["variants"]}
    if fn.node["self"] != "&self" or norm_ty(fn.node["output"]) != "bool":
        problems.append("signature is not (&self) -> bool")
    methods = {f_.name for f_ in facts.fns.values() if f_.impl is not None and norm_ty(f_.impl["self_ty"]) == expr_enum and not f_.impl.get("trait")}
    invoked = set()

    def run(selfv, subs=(), assign=()):
        pr = P.Probe(facts, expr_enum, fn.module)
        amap = {id(x): v for x, v in zip(subs, assign)}

        def hook(pr_, e, env):
            recv = pr_.ev(e["recv"], env)
            if not (isinstance(recv, P.Opq) and id(recv) in amap):
                return NotImplemented
            args = [pr_.ev(a, env) for a in e["args"]]
            if e["m"] == fn.name and not args:
                return bool(amap[id(recv)])
            for f_, sv_, av_ in reversed(pr_.frames):
                if f_.name == e["m"] and f_.impl is not None and norm_ty(f_.impl["self_ty"]) == expr_enum and len(av_) == len(args) and all(a is b_ for a, b_ in zip(args, av_)):
                    return bool(amap[id(recv)])
            raise P.NoEval("`.%s(..)` on a sub-expression is not a recursive call with the same arguments" % e["m"])

        def ihook(pr_, f_, sv_, av_):
            # the same recursion through a function value: holds(e) with holds = Expression::action
            if isinstance(sv_, P.Opq) and id(sv_) in amap and f_.impl is not None and norm_ty(f_.impl["self_ty"]) == expr_enum:
                if f_.key == fn.key and not av_:
                    return bool(amap[id(sv_)])
                for g_, _, bv_ in reversed(pr_.frames):
                    if g_.key == f_.key and len(bv_) == len(av_) and all(a is b_ for a, b_ in zip(av_, bv_)):
                        return bool(amap[id(sv_)])
                raise P.NoEval("`%s` applied to a sub-expression is not a recursive call with the same arguments" % f_.key)
            return NotImplemented

        pr.invoke_hook = ihook
        for m_ in methods:
            pr.mhooks[m_] = hook
        try:
            return pr.invoke(fn, selfv, [])
        finally:
            invoked.update(pr.invoked)

    ok_all = True
    try:
        # leaves
        hidden = []
        for v in evars:
            if v in ("Operator", "Action"):
                continue
            hidden.append(v)
            r = run(("enum", "%s::%s" % (expr_enum, v), [P.Opq("payload") for _ in facts.variant_fields(expr_enum, v)]))
            if r is not False:
                problems.append("a %s node yields %r, not false" % (v, r))
        # operators
        for w, ftys in oinfo.items():
            subs = [P.Opq("sub%d" % i) for i in range(len(ftys))]
            node = ("enum", "%s::Operator" % expr_enum, [("enum", "%s::%s" % (op_enum, w), list(subs))])
            for assign in itertools.product((False, True), repeat=len(subs)):
                try:
                    r = run(node, subs, assign)
                except P.NoEval as ex:
                    problems.append("%s: %s" % (w, ex))
                    break
                if r is not any(assign):
                    problems.append("%s with sub-results %s yields %r, not their disjunction" % (w, list(assign), r))
                    break
        # actions
        ints = {0, 1, 7, 8, 10, 12, 13, 255, 65535}
        for f_ in facts.fns.values():
            if not f_.test and tuple(f_.module) == tuple(fn.module):
                for n_ in find_all(f_.body, lambda n_: n_.get("k") == "lit" and n_.get("t") == "int"):
                    if 0 <= int(n_["v"]) <= 65535:
                        ints.add(int(n_["v"]))
        for f_ in facts.fns.values():
            if not f_.test and tuple(f_.module) == tuple(fn.module):
                for n_ in find_all(f_.node, lambda n_: isinstance(n_, dict) and n_.get("k") == "lit" and n_.get("t") == "int"):
                    if 0 <= int(n_["v"]) <= 65535:
                        ints.add(int(n_["v"]))
        ints = sorted(ints)
        action = {}
        for a in facts.variants("Action"):
            ftys = [norm_ty(t) for t in facts.variant_fields("Action", a)]
            lists = [i for i, t in enumerate(ftys) if t.startswith("Vec<FormatElement")]
            shapes = [()]
            if lists:
                # every kind of format element the predicate could tell apart: each escape (the numbered one with every
                # number the module's code mentions and some it does not), each directive, an empty and a non-empty literal
                elems = []
                for sv in facts.variants("FormatSpecial"):
                    nf = len(facts.variant_fields("FormatSpecial", sv))
                    if nf == 0:
                        elems.append(("enum", "FormatElement::Special", [("enum", "FormatSpecial::%s" % sv, [])]))
                    else:
                        for n_ in ints:
                            elems.append(("enum", "FormatElement::Special", [("enum", "FormatSpecial::%s" % sv, [n_] * nf)]))
                for fv_ in facts.variants("FormatField"):
                    ftys_ = [norm_ty(t) for t in facts.variant_fields("FormatField", fv_)]
                    elems.append(("enum", "FormatElement::Field", [("enum", "FormatField::%s" % fv_, ["n" if t == "char" else "x" for t in ftys_])]))
                elems += [("enum", "FormatElement::Literal", ["x"]), ("enum", "FormatElement::Literal", [""]), ("enum", "FormatElement::Literal", ["\n"])]
                shapes = [()] + [(x,) for x in elems] + [(x, y) for x in elems for y in elems]
            rows = []
            for sh in shapes:
                pay = [list(sh) if i in lists else P.Opq("payload") for i in range(len(ftys))]
                try:
                    r = run(("enum", "%s::Action" % expr_enum, [("enum", "Action::%s" % a, pay)]))
                except P.NoEval as ex:
                    r = "not evaluable: %s" % ex
                desc = None if not lists else ("empty" if not sh else ("ends in newline" if sh[-1][1] == "FormatElement::Special" and sh[-1][2][0][1] == "FormatSpecial::Newline" else "ends in something else"))
                if (desc, r) not in rows:
                    rows.append((desc, r))
                elif isinstance(r, str):
                    break
            action[a] = rows
    except (P.NoEval, P.Panic) as ex:
        return dict(ok=None, problems=["not evaluable: %s" % ex], hidden=[], accounted=sorted(invoked | {fn.key}), action={}, leaf=None)
    return dict(ok=not problems, problems=problems, hidden=hidden, accounted=sorted(invoked | {fn.key}), action=action, leaf=None)


def check_exists_syntactic(facts, fn, expr_enum="Expression", op_enum="Operator"):
    """(kept for the positive control) Returns dict(ok, problems[], leaf (the Action arm body), hidden (variants behind wildcard))."""
    problems = []
    accounted = {fn.key}
    name = fn.name
    body = rx.tail_expr(fn.body)
    stmts = fn.body["stmts"]
    if body is None or body["k"] != "match" or len(stmts) != 1 or not rx.is_var(body["scrut"], "self"):
        return dict(ok=None, problems=["body is not a single `match self`"], leaf=None, hidden=[])
    if fn.node["self"] != "&self" or norm_ty(fn.node["output"]) != "bool":
        problems.append("signature is not (&self) -> bool")
    evars = facts.variants(expr_enum)
    ovars = {v["name"]: [norm_ty(f["ty"]) for f in v["fields"]] for v in facts.enum(op_enum)["variants"]}
    explicit = {}
    wild = None
    for arm in body["arms"]:
        for p in rx.pat_cases(arm["pat"]):
            pv = rx.pat_variant(p)
            if pv:
                explicit.setdefault(pv[0].split("::")[-1], (p, arm))
            elif rx.is_catchall(p):
                wild = arm
            else:
                problems.append("unrecognised arm pattern %s" % psrc(p))
        if arm["guard"] is not None:
            problems.append("guarded arm %s" % psrc(arm["pat"]))
    hidden = [v for v in evars if v not in explicit]
    if hidden and wild is None:
        problems.append("variants %s not covered" % hidden)
    if wild is not None:
        wb = rx.peel(wild["body"])
        if not (wb["k"] == "lit" and wb["v"] is False):
            problems.append("wildcard arm yields %s, not false" % src(wb))
        for hv in hidden:
            if hv in ("Action", "Operator"):
                problems.append("variant %s is hidden behind the wildcard (treated as 'no')" % hv)
    leaf = explicit.get("Action", (None, None))[1]
    # operator recursion
    if "Operator" not in explicit:
        problems.append("no arm for Expression::Operator")
    else:
        p, arm = explicit["Operator"]
        binds = rx.pat_bindings(p)
        ob = rx.peel(arm["body"])
        holds = None  # name of a function parameter standing for the recursive call (higher-order helper)
        if ob["k"] == "mcall" and binds and len(ob["args"]) == 1:
            # op.any_operand(Expression::action): a method of the operator type applying its argument to the operands
            a0 = rx.peel(ob["args"][0])
            base, chain = rx.method_chain(ob["recv"])
            hk = "%s::%s" % (op_enum, ob["m"])
            h = facts.fns.get(hk)
            selfref = a0.get("k") == "path" and a0["segs"][-1] == name and (len(a0["segs"]) == 1 or a0["segs"][-2] in ("Self", expr_enum, "Exp"))
            if h is not None and selfref and rx.is_var(base, binds[0]) and all(m in ("as_ref", "deref", "borrow") for m, _, _ in chain) and h.node.get("self") in ("&self", "self"):
                hp = [n_ for n_, _ in h.params if n_ != "self"]
                ht = rx.tail_expr(h.body)
                if len(hp) == 1 and ht is not None and len(h.body["stmts"]) == 1 and ht["k"] == "match" and rx.is_var(ht["scrut"], "self"):
                    holds = hp[0]
                    accounted.add(hk)
                    ob = dict(ht, scrut={"k": "path", "segs": [binds[0]], "gen": [None], "l": ht.get("l")})
        if ob["k"] != "match" or not binds:
            problems.append("Operator arm is not a match on the operator")
        else:
            sc = ob["scrut"]
            base, chain = rx.method_chain(sc)
            if not (rx.is_var(base, binds[0]) and all(m in ("as_ref", "deref", "borrow") for m, _, _ in chain)):
                problems.append("inner match scrutinee is %s" % src(sc))
            seen = {}
            for a2 in ob["arms"]:
                cases = rx.pat_cases(a2["pat"])
                if a2["guard"] is not None:
                    problems.append("guarded operator arm")
                bodies = or_operands(a2["body"])
                for pc in cases:
                    pv = rx.pat_variant(pc)
                    if not pv:
                        if rx.is_catchall(pc):
                            problems.append("wildcard operator arm: a new operator would silently be treated as %s" % src(a2["body"]))
                        else:
                            problems.append("unrecognised operator pattern %s" % psrc(pc))
                        continue
                    vn = pv[0].split("::")[-1]
                    subs = pv[1]
                    names = []
                    for sp in subs:
                        if sp["k"] == "ident":
                            names.append(sp["name"])
                        else:
                            names.append(None)
                    seen[vn] = True
                    if vn not in ovars:
                        problems.append("unknown operator variant %s" % vn)
                        continue
                    if len(subs) != len(ovars[vn]) or None in names:
                        problems.append("%s: not every sub-expression is bound (%s)" % (vn, psrc(pc)))
                        continue
                    # every bound sub-expression is queried exactly once, results joined by || only
                    called = []
                    for b_ in bodies:
                        if holds is None and b_["k"] == "mcall" and b_["m"] == name and not b_["args"] and rx.var_name(b_["recv"]) is not None:
                            called.append(rx.var_name(b_["recv"]))
                        elif holds is not None and b_["k"] == "call" and rx.is_var(b_["f"], holds) and len(b_["args"]) == 1 and rx.var_name(b_["args"][0]) is not None:
                            called.append(rx.var_name(b_["args"][0]))
                        else:
                            problems.append("%s: operand `%s` of the disjunction is not a recursive call" % (vn, src(b_)))
                    if sorted(called) != sorted(names):
                        problems.append("%s: sub-expressions %s, recursive calls on %s" % (vn, names, called))
            for vn in ovars:
                if vn not in seen:
                    problems.append("operator variant %s has no arm" % vn)
    return dict(ok=not problems, problems=problems, leaf=leaf, hidden=hidden, accounted=sorted(accounted))
