"""Symbolic composition of value-transforming closures (the `.map(f)` chains of parser alternatives)."""
import re

from . import rx
from .facts import src

def compose_maps(maps, facts, b, env, result_ty):
    """Symbolic composition of a chain of `.map(f)` functions (outermost first) applied to the variable `X`; closures are
    substituted, function paths become calls, and conversions through a crate-local `impl From<_> for <result_ty>` are
    replaced by the body of that impl.  Returns the source text of the composed expression."""
    from .normalise import _subst

    val = {"k": "path", "segs": ["X"], "gen": [None], "l": 0}
    for f in reversed(maps):
        f = b.as_closure(f, env) if f.get("k") == "path" else f
        if f.get("k") == "closure" and len(f["params"]) == 1:
            pn = rx.closure_params(f)[0].get("name")
            body = rx.peel(f["body"])
            if pn is None:
                return None
            val = _subst(body, {pn: val})
        elif f.get("k") == "path":
            val = {"k": "call", "l": 0, "f": f, "args": [val]}
        else:
            return None
    # conversions into the result type
    def conv(e):
        if isinstance(e, list):
            return [conv(x) for x in e]
        if not isinstance(e, dict):
            return e
        e = {k_: conv(v) for k_, v in e.items()}
        arg = None
        if e.get("k") == "mcall" and e["m"] == "into" and not e["args"]:
            arg = e["recv"]
        elif e.get("k") == "call" and e["f"].get("k") == "path" and e["f"]["segs"][-1] == "from" and len(e["args"]) == 1 and (len(e["f"]["segs"]) == 1 or e["f"]["segs"][-2] in (result_ty, "From", "Self")):
            arg = e["args"][0]
        if arg is not None:
            impls = [fn for k_, fn in facts.fns.items() if re.match(r"<%s as From<.*>>::from$" % re.escape(result_ty), k_) and not fn.test]
            if len(impls) == 1 and len(impls[0].params) == 1 and impls[0].params[0][0]:
                t = rx.tail_expr(impls[0].body)
                if t is not None and len(impls[0].body["stmts"]) == 1:
                    return _subst(t, {impls[0].params[0][0]: arg})
            return {"k": "opaque", "src": "<conversion %s>" % src(e)[:40]}
        return e

    return src(rx.peel(conv(val)))

